(** C14: the shuffled concurrent reader as a composition —
        round_robin(pool.imap_unordered(process_and_list, shard_paths), buffer_size = file_parallelism)
    — and the shuffled async reader — round_robin_async(asyncstdlib.map(iterate_shard_async, shard_paths), buffer_size). *)
Require Import Sedpack.Model.Base Sedpack.Generated.GenIter Sedpack.Model.Iter Sedpack.Proofs.IterProofs Sedpack.Proofs.RrAccount.
Require Import Sedpack.Generated.GenLazyPool Sedpack.Model.LazyPool Sedpack.Proofs.LazyPoolInv Sedpack.Proofs.LazyPoolBound.

Section OutP.
Variables A B : Type.
Variable f : A -> option B.
Variable T : nat.
Variable P : B -> Prop.
Hypothesis fP : forall a b, f a = Some b -> P b.

Definition resP (r : res B) : Prop := match r with Out b => P b | _ => True end.
Definition pcP (c : cpc B) : Prop := match c with Put b => P b | _ => True end.
Definition OutInv (s : st A B) : Prop := Forall P (out s) /\ Forall resP (rs s) /\ pcP (pc s).

Lemma outinv_init xs : OutInv (init A B T xs).
Proof. unfold OutInv, init. cbn. repeat split; constructor. Qed.

Lemma outinv_step s t s' : OutInv s -> step A B f T s t = Some s' -> OutInv s'.
Proof.
  intros (Ho & Hr & Hp) Hs. destruct t as [|[|w]]; cbn [step] in Hs.
  - unfold cstep in Hs. destruct (pc s) as [i| |b|[|k] e|e] eqn:Epc.
    + destruct (next_item A (src s)) as [x s1]. injection Hs as <-. unfold OutInv. cbn [out rs pc]. repeat split; auto. destruct (prefill_break i T); exact I.
    + destruct (rs s) as [|[b| |] r'] eqn:Er; [discriminate| | |]; injection Hs as <-; unfold OutInv; cbn [out rs pc]; inversion Hr; subst; repeat split; auto.
      destruct (active s - 1 =? 0); exact I.
    + destruct (next_item A (src s)) as [x s1]. injection Hs as <-. unfold OutInv. cbn [out rs pc]. repeat split; auto.
      apply Forall_app. split; [exact Ho|constructor; [exact Hp|constructor]].
    + injection Hs as <-. unfold OutInv. cbn [out rs pc]. repeat split; auto.
    + injection Hs as <-. unfold OutInv. cbn [out rs pc]. repeat split; auto.
    + discriminate.
  - unfold astep in Hs. destruct (pc s); try discriminate. injection Hs as <-. unfold OutInv. cbn [out rs pc]. repeat split; auto.
  - unfold wstep in Hs. destruct (nth_error (wk s) w) as [[|a| | |]|]; try discriminate.
    + destruct (tp s) as [|[a|] t']; [discriminate| |]; injection Hs as <-; unfold OutInv; cbn [out rs pc]; repeat split; auto.
    + destruct (f a) as [b|] eqn:Ef.
      * injection Hs as <-. unfold OutInv. cbn [out rs pc]. repeat split; auto. apply Forall_app. split; [exact Hr|constructor; [exact (fP a b Ef)|constructor]].
      * destruct worker_on_exception; injection Hs as <-; unfold OutInv; cbn [out rs pc]; repeat split; auto.
        apply Forall_app. split; [exact Hr|constructor; [exact I|constructor]].
    + injection Hs as <-. unfold OutInv. cbn [out rs pc]. repeat split; auto. apply Forall_app. split; [exact Hr|constructor; [exact I|constructor]].
Qed.

Lemma reach_out xs s : reach A B f T xs s -> Forall P (out s).
Proof.
  intros H. assert (G : OutInv s) by (induction H as [|s t s' _ IH Hs]; [apply outinv_init|exact (outinv_step s t s' IH Hs)]).
  exact (proj1 G).
Qed.
End OutP.

Section Conc.
Variables (path ex : Type) (read : path -> list ex).
Variable m : nat.
Hypothesis shard_size : forall p, m <= length (read p).
Variable pick : nat -> nat -> nat.
Hypothesis pick_lt : forall j len, 0 < len -> pick j len < len.
Variable b : nat.                             (* buffer_size of round_robin *)

(** The pool in ANY reachable state (any thread schedule) over the paths [xs], having handed [out s] to round_robin; round_robin at
    any moment of its run over what the pool hands over ([out s] followed by whatever comes later), having pulled exactly what the
    pool has yielded so far (a generator only advances inside its consumer's next()).  Then the shard files taken by the pool
    exceed those accounted for by the examples handed over by at most 2T+2 (in flight) + b (round-robin slots). *)
Theorem concurrent_shuffled_readahead (T : nat) xs (s : st path (list ex)) later fuel :
  reach path (list ex) (fun p => Some (read p)) T xs s ->
  Forall (fun l => m <= length l) later ->
  let r := rr_run list_source pick b fuel (rr_init list_source (out s ++ later)) in
  rr_opened r = length (out s) ->
  (length xs - length (src s) - (2 * T + 2) - b) * m <= length (rr_out r).
Proof.
  intros Hr Hl r Hc.
  pose proof (lp_inflight_lemma path (list ex) (fun p => Some (read p)) T xs s Hr) as H1.
  assert (Hall : Forall (fun l => m <= length l) (out s ++ later)).
  { apply Forall_app. split; [|exact Hl]. apply (reach_out path (list ex) (fun p => Some (read p)) T (fun l => m <= length l)) with (xs := xs); [|exact Hr].
    intros a l E. injection E as <-. apply shard_size. }
  pose proof (rr_readahead ex pick b pick_lt list_source m (fun l => Forall (fun x => m <= length x) l)) as H2.
  assert (Hsz : forall (s0 : s_state list_source) (l : list ex) s', Forall (fun x => m <= length x) s0 -> s_next list_source s0 = Some (l, s') ->
                m <= length l /\ Forall (fun x => m <= length x) s').
  { intros s0 l s' Hf Hn. cbn [s_next list_source] in Hn. destruct s0 as [|y t]; [discriminate|]. injection Hn as <- <-.
    inversion Hf; subst. split; assumption. }
  specialize (H2 Hsz fuel (out s ++ later) Hall). cbv zeta in H2. fold r in H2. nia.
Qed.

(** The shuffled async reader: round robin directly over the lazily opened shards of any stream of paths. *)
Variable psrc : @source path.
Definition shards_source : @source (list ex) :=
  {| s_state := s_state psrc; s_next := fun s => match s_next psrc s with Some (p, s') => Some (read p, s') | None => None end |}.
Theorem async_shuffled_readahead fuel (s0 : s_state psrc) :
  let r := rr_run shards_source pick b fuel (rr_init shards_source s0) in (rr_opened r - b) * m <= length (rr_out r).
Proof.
  apply (rr_readahead ex pick b pick_lt shards_source m (fun _ => True)); [|exact I].
  intros s l s' _ Hn. cbn [s_next shards_source] in Hn. destruct (s_next psrc s) as [[p s1]|]; [|discriminate]. injection Hn as <- <-.
  split; [apply shard_size|exact I].
Qed.
End Conc.
