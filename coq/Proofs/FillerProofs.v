(** Invariants of the filler model and the C10 lemmas. *)
Require Import Sedpack.Model.Base Sedpack.Generated.GenFiller Sedpack.Model.Filler.

(** Facts about the generated kernels.  These are the only places where the proofs look inside
    the generated definitions: an edit of the source that changes a kernel breaks them here. *)
Lemma rollover_sound w eps c : rollover w eps c = true -> eps <= w \/ (c = true /\ 0 < w).
Proof.
  unfold rollover. intros H.
  repeat match goal with
         | H : (_ || _)%bool = true |- _ => apply orb_true_iff in H; destruct H as [H|H]
         | H : (_ && _)%bool = true |- _ => apply andb_true_iff in H; destruct H as [? H]
         | H : Nat.leb _ _ = true |- _ => apply Nat.leb_le in H
         | H : Nat.ltb _ _ = true |- _ => apply Nat.ltb_lt in H
         end; auto; try (right; split; auto; lia).
Qed.

Lemma rollover_full w eps c : eps <= w -> rollover w eps c = true.
Proof.
  unfold rollover. intros H. apply Nat.leb_le in H. rewrite H. reflexivity.
Qed.

Lemma rollover_nochange w eps : rollover w eps false = true -> eps <= w.
Proof. intros H. apply rollover_sound in H. destruct H as [H|[H _]]; [auto|discriminate]. Qed.

Lemma close_on_exit_pos w : close_on_exit w = true -> 0 < w.
Proof. unfold close_on_exit. intros H. apply Nat.ltb_lt in H. exact H. Qed.

Lemma order_is : write_example_order = [Roll; Attach; Write; Count].
Proof. reflexivity. Qed.

Lemma NoDup_app_single {A} (l : list A) (x : A) : NoDup l -> ~ In x l -> NoDup (l ++ [x]).
Proof.
  induction l as [|a l IH]; simpl; intros Hn Hi.
  - constructor; [intros []|constructor].
  - inversion Hn as [|a' l' Ha Hl]; subst. constructor.
    + intros Hin. apply in_app_or in Hin. destruct Hin as [Hin|[Hin|[]]]; [contradiction|].
      apply Hi. left. symmetry. exact Hin.
    + apply IH; [exact Hl | intros Hin; apply Hi; right; exact Hin].
Qed.

Section Inv.
Variable eps : nat.
Hypothesis eps_pos : 1 <= eps.

Definition size_okP (sh : shard) : Prop :=
  1 <= length (sh_ex sh) /\ length (sh_ex sh) <= eps /\ sh_n sh = length (sh_ex sh).
Definition fullP (sh : shard) : Prop := length (sh_ex sh) = eps.
Definition prog_ok (p : progress) : Prop :=
  length (sh_ex (p_shard p)) = p_written p /\ sh_n (p_shard p) = p_written p /\ p_written p <= eps.

Record Inv (st : fstate) : Prop := {
  i_open : forall s p, f_open st s = Some p -> prog_ok p;
  i_closed : Forall (fun x => size_okP (snd x)) (f_closed st);
  i_full : forall s, ~ In s (f_changed st) -> Forall fullP (closed_of s (f_closed st));
  i_nodup : NoDup (f_order st);
  i_order : forall s, f_open st s = None -> ~ In s (f_order st)
}.

Lemma closed_of_app s l1 l2 : closed_of s (l1 ++ l2) = closed_of s l1 ++ closed_of s l2.
Proof. unfold closed_of. rewrite filter_app, map_app. reflexivity. Qed.

Lemma closed_of_single_eq s sh : closed_of s [(s, sh)] = [sh].
Proof. unfold closed_of. simpl. destruct (split_eqb_spec s s); [reflexivity|congruence]. Qed.

Lemma closed_of_single_neq s s' sh : s' <> s -> closed_of s [(s', sh)] = [].
Proof. unfold closed_of. simpl. intros H. destruct (split_eqb_spec s' s); [congruence|reflexivity]. Qed.

Lemma inv_init : Inv init_fstate.
Proof.
  constructor; simpl; intros; try discriminate; try constructor; auto.
Qed.

(** The state of one split's progress after one [write_example], computed symbolically with the
    generated order, whatever the generated kernels decide. *)
Lemma write_example_inv st s cm ok : Inv st -> Inv (fst (write_example eps st s cm ok)).
Proof.
  intros [Ho Hc Hf Hn Hord].
  unfold write_example.
  set (h := f_heap st).
  destruct (f_open st s) as [p|] eqn:Eop.
  - (* existing progress *)
    pose proof (Ho s p Eop) as (Hlen & Hcnt & Hle).
    set (changed := metadata_changed (cm_value h cm) (mval h (sh_meta (p_shard p)))).
    rewrite order_is. cbn [run_tags exec_tag w_prog w_closed w_next p_shard p_written].
    destruct (rollover (p_written p) eps changed) eqn:Er.
    + (* roll over: the old shard is closed *)
      assert (Hsz : size_okP (p_shard p)).
      { apply rollover_sound in Er. unfold size_okP. destruct Er as [Er|[_ Er]]; lia. }
      assert (Hfull : changed = false -> fullP (p_shard p)).
      { intros Hch. rewrite Hch in Er. apply rollover_nochange in Er. unfold fullP. lia. }
      cbn [w_prog w_closed w_next p_shard p_written sh_id sh_ex sh_n sh_meta sh_vals fresh_shard].
      destruct cm as [o|]; [destruct (meta_truthy (hget h o))|];
        cbn [w_prog w_closed w_next p_shard p_written sh_id sh_ex sh_n sh_meta sh_vals fresh_shard];
        destruct ok; cbn [fst w_prog w_closed w_next p_shard p_written sh_id sh_ex sh_n sh_meta sh_vals fresh_shard];
        (constructor; cbn [f_open f_closed f_changed f_order];
         [ intros s' p'; unfold upd_open; destruct (split_eqb_spec s' s) as [->|Hne];
           [ intros H; injection H as <-; unfold prog_ok; simpl; lia | apply Ho ]
         | apply Forall_app; split; [exact Hc | constructor; [exact Hsz | constructor]]
         | intros s' Hni; rewrite closed_of_app; apply Forall_app; split;
           [ apply Hf; destruct changed; [intros Hin; apply Hni; right; exact Hin | exact Hni]
           | destruct (split_eqb_spec s s') as [<-|Hne];
             [ rewrite closed_of_single_eq; constructor; [|constructor];
               apply Hfull; destruct changed; [exfalso; apply Hni; left; reflexivity | reflexivity]
             | rewrite closed_of_single_neq by congruence; constructor ] ]
         | exact Hn
         | intros s'; unfold upd_open; destruct (split_eqb_spec s' s); [discriminate | apply Hord] ]).
    + (* no roll over *)
      assert (Hlt : p_written p < eps).
      { destruct (le_lt_dec eps (p_written p)) as [Hge|Hlt]; [|exact Hlt].
        rewrite (rollover_full _ _ changed Hge) in Er. discriminate. }
      destruct cm as [o|]; [destruct (meta_truthy (hget h o))|];
        cbn [w_prog w_closed w_next p_shard p_written sh_id sh_ex sh_n sh_meta sh_vals];
        destruct ok; cbn [fst w_prog w_closed w_next p_shard p_written sh_id sh_ex sh_n sh_meta sh_vals];
        (constructor; cbn [f_open f_closed f_changed f_order];
         [ intros s' p'; unfold upd_open; destruct (split_eqb_spec s' s) as [->|Hne];
           [ intros H; injection H as <-; unfold prog_ok; simpl; rewrite ?app_length; simpl; lia | apply Ho ]
         | exact Hc
         | intros s' Hni; apply Hf; destruct changed; [intros Hin; apply Hni; right; exact Hin | exact Hni]
         | exact Hn
         | intros s'; unfold upd_open; destruct (split_eqb_spec s' s); [discriminate | apply Hord] ]).
  - (* first write to this split: a fresh shard *)
    set (changed := metadata_changed (cm_value h cm) (mval h (sh_meta (p_shard {| p_shard := fresh_shard (f_next st); p_written := 0 |})))).
    rewrite order_is. cbn [run_tags exec_tag w_prog w_closed w_next p_shard p_written].
    assert (Hnr : rollover 0 eps changed = false).
    { destruct (rollover 0 eps changed) eqn:Er; [|reflexivity]. apply rollover_sound in Er. lia. }
    rewrite Hnr.
    assert (Hnew : NoDup (f_order st ++ [s])).
    { apply NoDup_app_single; [exact Hn | apply Hord; exact Eop]. }
    destruct cm as [o|]; [destruct (meta_truthy (hget h o))|];
      cbn [w_prog w_closed w_next p_shard p_written sh_id sh_ex sh_n sh_meta sh_vals fresh_shard];
      destruct ok; cbn [fst w_prog w_closed w_next p_shard p_written sh_id sh_ex sh_n sh_meta sh_vals fresh_shard];
      (constructor; cbn [f_open f_closed f_changed f_order];
       [ intros s' p'; unfold upd_open; destruct (split_eqb_spec s' s) as [->|Hne];
         [ intros H; injection H as <-; unfold prog_ok; simpl; lia | apply Ho ]
       | exact Hc
       | intros s' Hni; apply Hf; destruct changed; [intros Hin; apply Hni; right; exact Hin | exact Hni]
       | exact Hnew
       | intros s'; unfold upd_open; destruct (split_eqb_spec s' s); [discriminate|];
         intros Hnone Hin; apply in_app_or in Hin; destruct Hin as [Hin|[Hin|[]]];
         [ exact (Hord s' Hnone Hin) | congruence ] ]).
Qed.

Lemma step_inv st o : Inv st -> Inv (step eps st o).
Proof.
  destruct o as [s cm ok|ob v]; [apply write_example_inv|].
  intros [Ho Hc Hf Hn Hord]. constructor; simpl; auto.
Qed.

Lemma fold_inv ops st : Inv st -> Inv (fold_left (step eps) ops st).
Proof. revert st; induction ops as [|o ops IH]; simpl; intros st H; [exact H | apply IH, step_inv, H]. Qed.

Lemma run_inv ops : Inv (run_ops eps ops).
Proof. apply fold_inv, inv_init. Qed.

(** What [__exit__] closes. *)
Definition exit_one (st : fstate) (s : split) : list (split * shard) :=
  match f_open st s with
  | Some p => if close_on_exit (p_written p) then [(s, p_shard p)] else []
  | None => []
  end.

Lemma exit_closes_eq st : exit_closes st = flat_map (exit_one st) (f_order st).
Proof. reflexivity. Qed.

Lemma exit_one_sizes st s : Inv st -> Forall (fun x => size_okP (snd x)) (exit_one st s).
Proof.
  intros [Ho _ _ _ _]. unfold exit_one. destruct (f_open st s) as [p|] eqn:E; [|constructor].
  destruct (close_on_exit (p_written p)) eqn:Ec; [|constructor].
  constructor; [|constructor]. simpl. apply close_on_exit_pos in Ec.
  destruct (Ho s p E) as (H1 & H2 & H3). unfold size_okP. lia.
Qed.

Lemma exit_sizes st : Inv st -> Forall (fun x => size_okP (snd x)) (exit_closes st).
Proof.
  intros H. rewrite exit_closes_eq. induction (f_order st) as [|s l IH]; simpl; [constructor|].
  apply Forall_app; split; [apply exit_one_sizes, H | exact IH].
Qed.

Lemma closed_of_exit_one_neq st s s' : s' <> s -> closed_of s (exit_one st s') = [].
Proof.
  intros Hne. unfold exit_one. destruct (f_open st s') as [p|]; [|reflexivity].
  destruct (close_on_exit (p_written p)); [|reflexivity]. apply closed_of_single_neq. exact Hne.
Qed.

Lemma closed_of_exit_notin st s l : ~ In s l -> closed_of s (flat_map (exit_one st) l) = [].
Proof.
  induction l as [|s' l IH]; simpl; intros Hni; [reflexivity|].
  rewrite closed_of_app, IH by tauto. rewrite closed_of_exit_one_neq; [reflexivity|].
  intros ->. apply Hni. left. reflexivity.
Qed.

Lemma closed_of_exit_le1 st s l : NoDup l -> length (closed_of s (flat_map (exit_one st) l)) <= 1.
Proof.
  induction l as [|s' l IH]; simpl; intros Hn; [auto|].
  inversion Hn as [|x y Hni Hl]; subst. rewrite closed_of_app, app_length.
  destruct (split_eqb_spec s' s) as [->|Hne].
  - rewrite (closed_of_exit_notin st s l Hni). unfold exit_one.
    destruct (f_open st s) as [p|]; [destruct (close_on_exit (p_written p))|]; simpl;
      rewrite ?closed_of_single_eq; simpl; lia.
  - rewrite closed_of_exit_one_neq by exact Hne. simpl. apply IH, Hl.
Qed.

Lemma Forall_removelast {A} (P : A -> Prop) l : Forall P l -> Forall P (removelast l).
Proof.
  induction l as [|a l IH]; simpl; intros H; [constructor|].
  inversion H; subst. destruct l; [constructor|]. constructor; auto.
Qed.

Lemma removelast_app_le1 {A} (P : A -> Prop) (l l2 : list A) :
  Forall P l -> length l2 <= 1 -> Forall P (removelast (l ++ l2)).
Proof.
  intros H Hl. destruct l2 as [|x [|y l2]]; simpl in Hl; try lia.
  - rewrite app_nil_r. apply Forall_removelast, H.
  - rewrite removelast_last. exact H.
Qed.

Lemma forallb_Forall {A} (f : A -> bool) (P : A -> Prop) l :
  (forall x, P x -> f x = true) -> Forall P l -> forallb f l = true.
Proof. intros Hf H. induction H; simpl; [reflexivity|]. rewrite Hf, IHForall; auto. Qed.

Lemma sizes_ok_lemma ops : sizes_ok eps ops = true.
Proof.
  unfold sizes_ok, session_closed. pose proof (run_inv ops) as H.
  apply forallb_Forall with (P := fun x => size_okP (snd x)).
  - intros x (H1 & H2 & H3). unfold size_ok.
    apply Nat.leb_le in H1. apply Nat.leb_le in H2. apply Nat.eqb_eq in H3. rewrite H1, H2, H3. reflexivity.
  - apply Forall_app; split; [apply (i_closed _ H) | apply exit_sizes, H].
Qed.

Lemma all_but_last_full_lemma ops s :
  changed_in eps ops s = false -> all_but_last_full eps ops s = true.
Proof.
  unfold changed_in, all_but_last_full, session_closed. intros Hch.
  pose proof (run_inv ops) as H. set (st := run_ops eps ops) in *.
  assert (Hni : ~ In s (f_changed st)).
  { intros Hin. assert (existsb (split_eqb s) (f_changed st) = true); [|congruence].
    apply existsb_exists. exists s. split; [exact Hin|]. destruct (split_eqb_spec s s); congruence. }
  rewrite closed_of_app.
  apply forallb_Forall with (P := fullP).
  - intros x Hx. unfold full. apply Nat.eqb_eq. exact Hx.
  - apply removelast_app_le1; [apply (i_full _ H), Hni|].
    rewrite exit_closes_eq. apply closed_of_exit_le1, (i_nodup _ H).
Qed.
End Inv.
