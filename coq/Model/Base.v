(** Shared vocabulary of the sedpack models.  Executable Gallina only. *)
From Coq Require Export List Arith Bool ZArith Lia.
Export ListNotations.

(** Splits: the three literal values of [SplitT]. *)
Inductive split := Train | Test | Holdout.
Definition split_eqb (a b : split) : bool :=
  match a, b with Train, Train | Test, Test | Holdout, Holdout => true | _, _ => false end.
Lemma split_eqb_spec a b : reflect (a = b) (split_eqb a b).
Proof. destruct a, b; simpl; constructor; congruence. Qed.

(** Shard-level custom metadata.  A Python [dict[str, Any]] is abstracted to a
    natural number: [0] is the empty dictionary (falsy, also standing for the
    argument [None]), every other number a distinct non-empty value. *)
Definition meta := nat.
Definition meta_truthy (m : meta) : bool := negb (m =? 0).
Definition meta_eqb (a b : meta) : bool := a =? b.

(** Caller-owned mutable objects (the dictionaries a caller passes in). *)
Definition obj := nat.
Definition heap := list (obj * meta).
Fixpoint hget (h : heap) (o : obj) : meta :=
  match h with [] => 0 | (o', m) :: t => if o =? o' then m else hget t o end.
Definition hset (h : heap) (o : obj) (m : meta) : heap := (o, m) :: h.

(** The four effects of [write_example], in the order the source performs them
    (the order itself is generated from the source). *)
Inductive wtag := Roll | Attach | Write | Count.
(** Does attaching metadata store the caller's object or a copy? (generated) *)
Inductive attach_kind := Alias | Copy.

(** What a lazy-pool worker does when the mapped function raises (generated). *)
Inductive wmode := Die | Forward.

(** Association lists in insertion order (Python dicts). *)
Section Assoc.
  Context {K V : Type} (eqb : K -> K -> bool).
  Fixpoint aget (l : list (K * V)) (k : K) : option V :=
    match l with [] => None | (k', v) :: t => if eqb k k' then Some v else aget t k end.
  Fixpoint aset (l : list (K * V)) (k : K) (v : V) : list (K * V) :=
    match l with
    | [] => [(k, v)]
    | (k', v') :: t => if eqb k k' then (k, v) :: t else (k', v') :: aset t k v
    end.
End Assoc.

(** C01 vocabulary: NumPy's dtype.byteorder flag, sys.byteorder, and what the writer does with the array. *)
Inductive border := BNative | BBig | BLittle | BNone | BOther.
Inductive sysorder := SysBig | SysLittle | SysOther.
Inductive action := Keep | Swap | Raise.
Inductive dump_order := OrderC | OrderF | OrderA | OrderK.
