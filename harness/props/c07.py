"""C07 — unreadable shards surface as errors: never a hang, never silent truncation."""
import json

from harness import common, iterlib
from harness.common import Broken, COQ, REPO
from translator import pygen

PID = "C07"
GENS = ["GenLazyPool", "GenIter"]


def jobs_for(ctx, n):
    rng = ctx.rng
    jobs = []
    combos = [(w, k) for w in ("first", "middle", "last") for k in ("deleted", "emptied", "garbage")]
    fixed = [("fb", ""), ("fb", "LZ4"), ("npz", ""), ("tfrec", ""), ("fb", "GZIP")]
    for i in range(n):
        fmt, comp = fixed[i % len(fixed)] if i < 2 * len(fixed) else rng.choice(fixed)
        spec = iterlib.gen_dataset(rng, fmt=fmt, min_shards=rng.choice([3, 4, 6]), max_sessions=2)
        spec["compression"] = comp
        which, kind = combos[i % len(combos)] if i < 2 * len(combos) else rng.choice(combos)
        reqs = []
        for iface in iterlib.ifaces_for(spec):
            for sh in (0, rng.choice([1, 3, 50])):
                reqs.append({"iface": iface, "split": 0, "shuffle": sh, "repeat": False, "file_parallelism": rng.choice([1, 2, 3, 5])})
            # a repeating stream must not skip the unreadable shard epoch after epoch: ask for several epochs' worth of examples
            reqs.append({"iface": iface, "split": 0, "shuffle": rng.choice([0, 2, 50]), "repeat": True, "file_parallelism": rng.choice([1, 2, 3]), "take": 90})
        jobs.append({"dataset": spec, "requests": reqs, "damage": {"split": 0, "which": which, "kind": kind}})
    return jobs


def run(ctx):
    broken = []
    tr = pygen.regenerate(REPO, COQ / "Generated", only=GENS)
    for g in GENS:
        if tr[g]:
            broken.append(Broken(f"translator: {g}", tr[g]))
    proof = None
    if not broken:
        try:
            proof = common.check_property_file(PID)
        except Broken as b:
            broken.append(b)
    jobs = jobs_for(ctx, ctx.scale(10, 90))
    res = iterlib.run_jobs(jobs, timeout=15, chunk=1)
    runs, nontrivial, outcomes = 0, set(), {}
    for job, r in zip(jobs, res):
        if "build_error" in r:
            ctx.report("harness", r["build_error"], {"job": job}, found_input=False)
            continue
        dmg = job["damage"]
        premise = dmg["kind"] == "deleted" or bool(r.get("decoder_rejects"))
        ref = r["reference"]["0"]
        lost = ref["shards"][r["damaged_index"]][0]
        for q, o in zip(job["requests"], r["results"]):
            one = {"dataset": job["dataset"], "requests": [q], "damage": dmg}
            if o.get("skipped"):
                continue
            runs += 1
            cls = "hang" if o.get("hang") else "raised" if o.get("error") else "ended"
            key = f"{q['iface']}:{'shuffled' if q['shuffle'] else 'ordered'}:{cls}"
            outcomes[key] = outcomes.get(key, 0) + 1
            nontrivial.add(json.dumps([job["dataset"]["format"], job["dataset"]["compression"], dmg, q["iface"], bool(q["shuffle"]), q["file_parallelism"]]))
            if not premise:
                continue
            if cls == "hang":
                ctx.report(f"hang:{q['iface']}", f"{q['iface']} shuffle={q['shuffle']} fp={q['file_parallelism']} on {job['dataset']['format']}/{job['dataset']['compression'] or 'none'} with the {dmg['which']} shard {dmg['kind']}: "
                                                f"no error and no end within the watchdog", {"job": one})
            elif cls == "ended" and q.get("repeat"):
                ctx.report(f"repeating-stream-skips-shard:{q['iface']}", f"{q['iface']} shuffle={q['shuffle']} fp={q['file_parallelism']} repeat=True on {job['dataset']['format']}/{job['dataset']['compression'] or 'none'} "
                                                                           f"with the {dmg['which']} shard {dmg['kind']}: {len(o['out'])} examples ({len(o['out']) // max(1, len(ref['seq']) - len(lost))} epochs of the readable shards) were delivered and no error was raised", {"job": one})
            elif cls == "ended" and not set(lost) <= set(o["out"]):
                ctx.report(f"silent-truncation:{q['iface']}", f"{q['iface']} shuffle={q['shuffle']} fp={q['file_parallelism']} on {job['dataset']['format']}/{job['dataset']['compression'] or 'none'} with the {dmg['which']} shard {dmg['kind']}: "
                                                              f"the pass ended normally with {len(o['out'])} of {len(ref['seq'])} examples", {"job": one})
    if broken and not ctx.violations:
        b = broken[0]
        ctx.report(f"broken:{b.what}", b.what, {"unchecked": b.what, "detail": b.detail[-3000:]}, found_input=False)
    ctx.sample(jobs[0]["damage"])
    ctx.sample(jobs[0]["requests"][0])
    ctx.coverage.update({
        "obligations": proof["obligations"] if proof else 5, "discharged": proof["discharged"] if proof else 0,
        "theorems": proof["theorems"] if proof else [],
        "checker_cmd": "make -C coq Proofs/ReadFailProofs.vo Proofs/LazyPoolResult.vo && coqc -Q coq Sedpack coq/Properties/C07.v (Print Assumptions under each theorem)",
        "trusted_base": common.TRUSTED_BASE_COMMON + [
            "premise of the property: which damage the decoders reject is measured (the damaged file is fed to the format's decoder), not modelled",
            "ThreadPoolExecutor.map re-raises at the failing index; asyncstdlib/tf.data error forwarding: oracles, validated by the damage runs",
            "the Rust reader is not modelled here (see C15 and the known finding F4)"],
        "evaluations": runs, "distinct_nontrivial": len(nontrivial),
        "rule": "datasets (fb with/without compression, npz, tfrec; 3..8 shards) x damaged shard first/middle/last x deleted/emptied/garbage x every interface x shuffled/ordered x file_parallelism 1..5, "
                "each run under a 15 s watchdog; outcome class raised / ended / hang; distinct by (format, compression, damage, interface, shuffled, parallelism)",
        "outcomes": outcomes,
    })


def replay(ctx, rp):
    job = rp["replay"].get("job")
    if not job:
        print("no concrete input in this replay file:", rp["replay"].get("unchecked"))
        return False
    r = iterlib.run_jobs([job], timeout=15, chunk=1)[0]
    o = r["results"][0]
    lost = r["reference"]["0"]["shards"][r["damaged_index"]][0]
    print(json.dumps({"decoder_rejects": r.get("decoder_rejects"), "result": {k: (v if k != "out" else len(v)) for k, v in o.items()}}))
    return bool(o.get("error")) or (not o.get("hang") and set(lost) <= set(o.get("out", [])))
