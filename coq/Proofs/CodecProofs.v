Require Import Coq.Strings.String.
Require Import Sedpack.Model.Base Sedpack.Generated.GenCodec Sedpack.Model.Codec.
Open Scope list_scope.
Open Scope Z_scope.

Lemma le_encode_length w x : length (le_encode w x) = w.
Proof. revert x; induction w as [|w IH]; intros x; cbn [le_encode length]; [reflexivity | rewrite IH; reflexivity]. Qed.

Lemma le_roundtrip w : forall x, 0 <= x < 2 ^ (8 * Z.of_nat w) -> le_decode (le_encode w x) = x.
Proof.
  induction w as [|w IH]; intros x Hx.
  - cbn in *. lia.
  - cbn [le_encode le_decode]. rewrite IH.
    + pose proof (Z.div_mod x 256). lia.
    + replace (8 * Z.of_nat (S w)) with (8 + 8 * Z.of_nat w) in Hx by lia.
      rewrite Z.pow_add_r in Hx by lia. change (2 ^ 8) with 256 in Hx.
      split; [apply Z.div_pos; lia | apply Z.div_lt_upper_bound; lia].
Qed.

Lemma le_encode_bytes w : forall x b, List.In b (le_encode w x) -> 0 <= b < 256.
Proof. induction w as [|w IH]; intros x b; cbn [le_encode]; [intros [] | intros [<- | H]; [apply Z.mod_pos_bound; lia | eapply IH; exact H]]. Qed.

(** whatever the array's byte-order flag and the machine: what is stored is the little-endian encoding *)
Lemma stored_le f s w x : s <> SysOther -> f <> BOther -> (f = BNone -> (w <= 1)%nat) -> stored_bytes f s w x = Some (le_encode w x).
Proof.
  intros Hs Hf Hn. unfold stored_bytes, mem_bytes.
  destruct f, s; try congruence; cbn; rewrite ?rev_involutive; try reflexivity.
Qed.

Lemma decode_le s l : mem_decode decode_byteorder s l = le_decode l.
Proof. reflexivity. Qed.

(** shapes *)
Lemma indices_length shape : length (indices shape) = prod shape.
Proof.
  induction shape as [|d ds IH]; [reflexivity|]. cbn [indices prod fold_right]. fold (prod ds).
  generalize 0%nat. induction d as [|d IHd]; intros k; cbn [seq flat_map]; [reflexivity|].
  rewrite app_length, map_length, IH, IHd. lia.
Qed.

Lemma nth_flat_map_blocks {A} (g : nat -> list A) (n : nat) (dflt : A) : forall d k i j,
  (forall i, length (g i) = n) -> (i < d)%nat -> (j < n)%nat ->
  nth (i * n + j) (flat_map g (seq k d)) dflt = nth j (g (k + i)%nat) dflt.
Proof.
  induction d as [|d IH]; intros k i j Hl Hi Hj; [lia|].
  cbn [seq flat_map]. destruct i as [|i].
  - rewrite app_nth1 by (rewrite Hl; lia). rewrite Nat.add_0_r. reflexivity.
  - rewrite app_nth2 by (rewrite Hl; lia). rewrite Hl.
    replace (S i * n + j - n)%nat with (i * n + j)%nat by lia.
    rewrite IH by (auto; lia). f_equal. f_equal. lia.
Qed.

Lemma ravel_lt shape : forall idx, in_range shape idx -> (ravel shape idx < prod shape)%nat.
Proof.
  induction shape as [|d ds IH]; intros [|i is] H; cbn in H; try contradiction.
  - cbn. lia.
  - destruct H as [Hi Hr]. specialize (IH _ Hr). cbn [ravel prod fold_right]. fold (prod ds). nia.
Qed.

Lemma nth_ravel_indices shape : forall idx, in_range shape idx -> nth (ravel shape idx) (indices shape) [] = idx.
Proof.
  induction shape as [|d ds IH]; intros [|i is] H; cbn in H; try contradiction; [reflexivity|].
  destruct H as [Hi Hr]. cbn [ravel indices].
  rewrite (nth_flat_map_blocks (fun i => map (cons i) (indices ds)) (prod ds)).
  - cbn [Nat.add]. pose proof (ravel_lt ds is Hr) as L.
    rewrite (nth_indep _ [] (i :: [])) by (rewrite map_length, indices_length; exact L).
    change (i :: []) with (cons i []). rewrite map_nth. rewrite IH by exact Hr. reflexivity.
  - intros k. rewrite map_length. apply indices_length.
  - exact Hi.
  - apply ravel_lt. exact Hr.
Qed.

(** reshape (C order) of the C-order flattening is the array, for every array function (hence every memory layout) *)
Lemma reshape_flatten shape (arr : list nat -> Z) idx : in_range shape idx ->
  nth (ravel shape idx) (map arr (indices shape)) 0 = arr idx.
Proof.
  intros H. rewrite (nth_indep _ 0 (arr [])) by (rewrite map_length, indices_length; apply ravel_lt; exact H).
  rewrite map_nth. rewrite nth_ravel_indices by exact H. reflexivity.
Qed.

Lemma in_range_indices shape : forall idx, List.In idx (indices shape) -> in_range shape idx.
Proof.
  induction shape as [|d ds IH]; intros idx H.
  - cbn in H. destruct H as [<- | []]. exact I.
  - cbn [indices] in H. apply in_flat_map in H as [i [Hi H]]. apply in_map_iff in H as [is [<- His]].
    apply in_seq in Hi. cbn. split; [lia | apply IH; exact His].
Qed.

(** decoding chunks *)
Lemma chunks_concat w : forall (ls : list (list Z)), (forall l, List.In l ls -> length l = w) -> chunks w (length ls) (concat ls) = ls.
Proof.
  induction ls as [|l ls IH]; intros H; [reflexivity|].
  cbn [length chunks concat]. assert (Hl : length l = w) by (apply H; left; reflexivity).
  rewrite firstn_app, <- Hl, firstn_all, Nat.sub_diag, firstn_O, app_nil_r.
  rewrite skipn_app, skipn_all, Nat.sub_diag, skipn_O. cbn [app].
  rewrite Hl. rewrite IH; [reflexivity | intros l' Hl'; apply H; right; exact Hl'].
Qed.

Lemma sequence_all_some {A B} (g : A -> option B) (h : A -> B) : forall l, (forall a, List.In a l -> g a = Some (h a)) -> sequence (map g l) = Some (map h l).
Proof.
  induction l as [|a l IH]; intros H; [reflexivity|]. cbn [map sequence]. rewrite (H a (or_introl eq_refl)).
  rewrite IH; [reflexivity | intros a' Ha'; apply H; right; exact Ha'].
Qed.

Section Attr.
Variables (f : border) (s : sysorder) (w : nat) (shape : list nat) (arr : list nat -> Z).
Hypothesis Hs : s <> SysOther.
Hypothesis Hf : f <> BOther.
Hypothesis Hn : f = BNone -> (w <= 1)%nat.
Hypothesis Hrange : forall idx, in_range shape idx -> 0 <= arr idx < 2 ^ (8 * Z.of_nat w).

Lemma fb_write_attr_spec : fb_write_attr f s w shape arr = Some (concat (map (fun i => le_encode w (arr i)) (indices shape))).
Proof.
  unfold fb_write_attr. change (enumerate flatten_order shape) with (indices shape).
  rewrite (sequence_all_some _ (fun i => le_encode w (arr i))); [reflexivity|].
  intros i _. apply stored_le; assumption.
Qed.

Lemma fb_decode_written : fb_decode_flat s w (prod shape) (concat (map (fun i => le_encode w (arr i)) (indices shape))) = map arr (indices shape).
Proof.
  unfold fb_decode_flat. rewrite <- indices_length. rewrite <- (map_length (fun i => le_encode w (arr i)) (indices shape)).
  rewrite chunks_concat.
  - rewrite map_map. apply map_ext_in. intros i Hi. rewrite decode_le. apply le_roundtrip. apply Hrange. apply in_range_indices. exact Hi.
  - intros l Hl. apply in_map_iff in Hl as [i [<- _]]. apply le_encode_length.
Qed.

Theorem fb_attr_roundtrip : exists bytes, fb_write_attr f s w shape arr = Some bytes /\ length bytes = (w * prod shape)%nat /\
  forall idx, in_range shape idx -> fb_read_attr s w shape bytes idx = arr idx.
Proof.
  eexists. split; [apply fb_write_attr_spec|]. split.
  - rewrite <- indices_length. induction (indices shape) as [|i l IH]; cbn [map concat length]; [lia|].
    rewrite app_length, le_encode_length, IH. lia.
  - intros idx H. unfold fb_read_attr. rewrite fb_decode_written. apply reshape_flatten. exact H.
Qed.
End Attr.

(** a Fortran-order dump read back in C order is NOT the array (why the flatten order matters) *)
Example f_order_differs : let arr := fun idx => match idx with [i; j] => Z.of_nat (10 * i + j) | _ => 0 end in
  map arr (indices_F [2; 3]%nat) <> map arr (indices [2; 3]%nat).
Proof. vm_compute. discriminate. Qed.

(** integer casts *)
Lemma pow8_mono a b : (a <= b)%nat -> 2 ^ (8 * Z.of_nat a) <= 2 ^ (8 * Z.of_nat b).
Proof. intros H. apply Z.pow_le_mono_r; lia. Qed.
Lemma pow8_half b : (0 < b)%nat -> 2 * 2 ^ (8 * Z.of_nat b - 1) = 2 ^ (8 * Z.of_nat b).
Proof. intros H. rewrite <- Z.pow_succ_r by lia. f_equal. lia. Qed.
Lemma pow8_mono_half a b : (a < b)%nat -> 2 ^ (8 * Z.of_nat a) <= 2 ^ (8 * Z.of_nat b - 1).
Proof. intros H. apply Z.pow_le_mono_r; lia. Qed.

Theorem safe_cast_exact a b x : (0 < wd a)%nat -> 0 <= x < 2 ^ (8 * Z.of_nat (wd a)) -> can_cast_safe a b = true ->
  interp b (cast a b x) = interp a x.
Proof.
  intros Hw Hx Hc. unfold cast, encode, interp, can_cast_safe in *.
  pose proof (pow8_half (wd a) Hw) as Ha.
  assert (Pa : 0 < 2 ^ (8 * Z.of_nat (wd a) - 1)) by (apply Z.pow_pos_nonneg; lia).
  destruct (sgn a) eqn:Sa, (sgn b) eqn:Sb; cbn [andb] in *; try discriminate.
  - (* signed -> signed *)
    apply Nat.leb_le in Hc. assert (Hwb : (0 < wd b)%nat) by lia.
    pose proof (pow8_half (wd b) Hwb) as Hb. pose proof (pow8_mono _ _ Hc) as M.
    assert (Pb : 0 < 2 ^ (8 * Z.of_nat (wd b) - 1)) by (apply Z.pow_pos_nonneg; lia).
    destruct (2 ^ (8 * Z.of_nat (wd a) - 1) <=? x) eqn:E; [apply Z.leb_le in E | apply Z.leb_gt in E].
    + assert (Hm : (x - 2 ^ (8 * Z.of_nat (wd a))) mod 2 ^ (8 * Z.of_nat (wd b)) = x - 2 ^ (8 * Z.of_nat (wd a)) + 2 ^ (8 * Z.of_nat (wd b))).
      { symmetry. apply Z.mod_unique with (q := -1); lia. }
      rewrite Hm. destruct (_ <=? _) eqn:E2; [lia | apply Z.leb_gt in E2; lia].
    + rewrite Z.mod_small by lia. destruct (_ <=? _) eqn:E2; [apply Z.leb_le in E2; lia | reflexivity].
  - (* unsigned -> signed, strictly wider *)
    apply Nat.ltb_lt in Hc. pose proof (pow8_mono_half _ _ Hc) as M.
    assert (Hwb : (0 < wd b)%nat) by lia. pose proof (pow8_half (wd b) Hwb) as Hb.
    rewrite Z.mod_small by lia. destruct (_ <=? _) eqn:E2; [apply Z.leb_le in E2; lia | reflexivity].
  - (* unsigned -> unsigned *)
    apply Nat.leb_le in Hc. pose proof (pow8_mono _ _ Hc) as M. rewrite Z.mod_small by lia. reflexivity.
Qed.

(** TFRecord stores every integer attribute as int64 *)
Corollary tfrec_widen_exact a x : (0 < wd a <= 8)%nat -> (sgn a = false -> (wd a < 8)%nat) -> 0 <= x < 2 ^ (8 * Z.of_nat (wd a)) ->
  interp {| sgn := true; wd := 8 |} (cast a {| sgn := true; wd := 8 |} x) = interp a x.
Proof.
  intros Hw Hu Hx. apply safe_cast_exact; [lia | exact Hx|]. unfold can_cast_safe. cbn [sgn wd].
  destruct (sgn a); [apply Nat.leb_le; lia | apply Nat.ltb_lt; apply Hu; reflexivity].
Qed.

(** every compression is decompressed by the library that compressed it *)
Definition pair_eqb (a b : string * string) : bool := String.eqb (fst a) (fst b) && String.eqb (snd a) (snd b).
Theorem codec_pairs_agree : forall e, List.In e compress_table -> List.In e decompress_table.
Proof.
  assert (H : forallb (fun e => existsb (pair_eqb e) decompress_table) compress_table = true) by (vm_compute; reflexivity).
  intros e He. pose proof (proj1 (forallb_forall _ _) H e He) as Ex. apply existsb_exists in Ex as [e' [Hin Heq]].
  unfold pair_eqb in Heq. apply andb_true_iff in Heq as [H1 H2]. apply String.eqb_eq in H1, H2.
  destruct e, e'; cbn in *; subst; exact Hin.
Qed.

(** a whole shard through a container and a compressor *)
Section Shard.
Variables (container file : Type).
Variable build : list (list (list Z)) -> container.
Variable parse : container -> list (list (list Z)).
Hypothesis parse_build : forall x, parse (build x) = x.
Variable compress : container -> file.
Variable decompress : file -> container.
Hypothesis decompress_compress : forall c, decompress (compress c) = c.
Variables (f : border) (s : sysorder).
Hypothesis Hs : s <> SysOther.
Hypothesis Hf : f <> BOther /\ f <> BNone.

Definition write_shard (decls : list decl) (exs : list (list (list nat -> Z))) : option file :=
  option_map (fun x => compress (build x)) (sequence (map (write_example f s decls) exs)).
Definition read_value (decls : list decl) (fl : file) (e a : nat) (idx : list nat) : Z :=
  let d := nth a decls (0%nat, []) in
  fb_read_attr s (fst d) (snd d) (nth a (nth e (parse (decompress fl)) []) []) idx.

Definition well_formed (decls : list decl) (ex : list (list nat -> Z)) : Prop :=
  length ex = length decls /\
  forall a, (a < length decls)%nat -> forall idx, in_range (snd (nth a decls (0%nat, []))) idx ->
    0 <= nth a ex (fun _ => 0) idx < 2 ^ (8 * Z.of_nat (fst (nth a decls (0%nat, [])))).

Lemma write_example_spec decls ex : well_formed decls ex ->
  write_example f s decls ex = Some (map (fun da => concat (map (fun i => le_encode (fst (fst da)) (snd da i)) (indices (snd (fst da))))) (combine decls ex)).
Proof.
  intros [Hlen Hr]. unfold write_example. apply sequence_all_some.
  intros [[w shape] arr] Hin. cbn [fst snd].
  apply In_nth with (d := ((0%nat, []), fun _ => 0)) in Hin as [a [Ha Hnth]].
  rewrite combine_length, Hlen, Nat.min_id in Ha. rewrite combine_nth in Hnth by (symmetry; exact Hlen).
  injection Hnth as Hd Harr.
  apply fb_write_attr_spec.
  1: exact Hs. 1: apply Hf. intros C; destruct Hf as [_ Hf2]; contradiction.
Qed.

Theorem fb_shard_roundtrip decls exs : (forall ex, List.In ex exs -> well_formed decls ex) ->
  exists fl, write_shard decls exs = Some fl /\
    forall e a idx, (e < length exs)%nat -> (a < length decls)%nat -> in_range (snd (nth a decls (0%nat, []))) idx ->
      read_value decls fl e a idx = nth a (nth e exs []) (fun _ => 0) idx.
Proof.
  intros Hwf. unfold write_shard.
  rewrite (sequence_all_some _ (fun ex => map (fun da => concat (map (fun i => le_encode (fst (fst da)) (snd da i)) (indices (snd (fst da))))) (combine decls ex)))
    by (intros ex Hex; apply write_example_spec; apply Hwf; exact Hex).
  cbn [option_map]. eexists. split; [reflexivity|].
  intros e a idx He Ha Hidx. unfold read_value. rewrite decompress_compress, parse_build.
  set (g := fun ex : list (list nat -> Z) => map (fun da : decl * (list nat -> Z) => concat (map (fun i => le_encode (fst (fst da)) (snd da i)) (indices (snd (fst da))))) (combine decls ex)).
  rewrite (nth_indep _ [] (g [])) by (rewrite map_length; exact He).
  rewrite map_nth. unfold g.
  assert (W : well_formed decls (nth e exs [])) by (apply Hwf; apply nth_In; exact He).
  destruct W as [Hlen Hr].
  set (h := fun da : decl * (list nat -> Z) => concat (map (fun i => le_encode (fst (fst da)) (snd da i)) (indices (snd (fst da))))).
  rewrite (nth_indep _ [] (h ((0%nat, []), fun _ => 0))) by (rewrite map_length, combine_length, Hlen, Nat.min_id; exact Ha).
  rewrite map_nth. rewrite combine_nth by (symmetry; exact Hlen). unfold h. cbn [fst snd].
  unfold fb_read_attr. rewrite fb_decode_written.
  - apply reshape_flatten. exact Hidx.
  - intros idx' Hidx'. apply Hr; assumption.
Qed.
End Shard.
