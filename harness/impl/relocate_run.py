"""C20: descriptions round trip, relocation, version gate."""
import json
import os
import random
import shutil
import sys
import tempfile
from pathlib import Path

sys.path.insert(0, str(Path(__file__).resolve().parent))
import history_run as H  # noqa: E402
import iterate_run as I  # noqa: E402
import numpy as np  # noqa: E402
import sedpack  # noqa: E402
from sedpack.io import Dataset, Metadata, DatasetStructure, Attribute  # noqa: E402

TEXTS = ["", "plain", "žluťoučký kůň", "日本語 テキスト", "emoji 🦀🐍", "quote \" back\\slash", "tab\tnew\nline", " leading and trailing ", "\u0000nul?".replace("\u0000", ""), "a" * 300]


def gen_json(rng, depth=0):
    k = rng.choice(["str", "int", "float", "bool", "null", "list", "map"] if depth < 3 else ["str", "int", "float", "bool", "null"])
    if k == "str":
        return rng.choice(TEXTS)
    if k == "int":
        return rng.choice([0, 1, -1, 2 ** 31, -2 ** 63, 2 ** 70, 123456789])
    if k == "float":
        return rng.choice([0.0, -0.0, 1.5, -2.25, 1e308, 5e-324, 3.141592653589793, 1e-7])
    if k == "bool":
        return rng.choice([True, False])
    if k == "null":
        return None
    if k == "list":
        return [gen_json(rng, depth + 1) for _ in range(rng.randint(0, 3))]
    return {rng.choice(TEXTS[1:7]) + str(i): gen_json(rng, depth + 1) for i in range(rng.randint(0, 3))}


def describe(seed, n):
    rng = random.Random(seed)
    out = []
    comps = {"fb": I.__dict__.get("FB", ["", "BZ2", "GZIP", "LZMA", "LZ4", "ZLIB", "ZSTD"]), "npz": ["", "ZIP"], "tfrec": ["", "GZIP", "ZLIB"]}
    algs = ["md5", "sha1", "sha224", "sha256", "sha384", "sha512", "sha3_224", "sha3_256", "sha3_384", "sha3_512", "xxh32", "xxh64", "xxh128"]
    for i in range(n):
        tmp = Path(tempfile.mkdtemp(prefix="verif_desc_"))
        try:
            fmt = rng.choice(["fb", "npz", "tfrec"])
            md = Metadata(description=rng.choice(TEXTS), dataset_license=rng.choice(TEXTS), dataset_version=rng.choice(["1.0.0", "2.3.4-beta", ""]),
                          download_from=rng.choice(TEXTS), custom_metadata={f"k{j}": gen_json(rng) for j in range(rng.randint(0, 4))})
            attrs = [Attribute(name=rng.choice(["a", "b c", "ů", "x/y"]) + str(j), dtype=rng.choice(["int32", "float32", "uint8", "int64"]),
                               shape=tuple(rng.randint(1, 3) for _ in range(rng.randint(1, 3))), custom_metadata={"m": gen_json(rng)} if rng.random() < 0.6 else {})
                     for j in range(rng.randint(1, 3))]
            st = DatasetStructure(saved_data_description=attrs, compression=rng.choice(comps[fmt]), examples_per_shard=rng.choice([1, 2, 256, 10 ** 6]),
                                  shard_file_type=fmt, hash_checksum_algorithms=tuple(rng.choice(algs) for _ in range(rng.randint(0, 4))))
            ds = Dataset.create(path=tmp / rng.choice(["d", "dir with blank", "ů"]), metadata=md, dataset_structure=st)
            shard_meta = {f"s{j}": gen_json(rng) for j in range(rng.randint(1, 3))}
            with ds.filler() as f:
                for k in range(rng.randint(0, 3)):
                    f.write_example(values={a.name: np.zeros(a.shape, a.dtype) for a in attrs}, split="train", custom_metadata=shard_meta)
            fresh = Dataset(ds.path)
            problems = []
            raw = json.loads((Path(ds.path) / "dataset_info.json").read_text())
            if raw.get("metadata", {}).get("sedpack_version") != sedpack.__version__:
                problems.append(f"dataset_info.json does not record the version it was written by (found {raw.get('metadata', {}).get('sedpack_version')!r}): "
                                "another release cannot apply the version gate")
            for key in ("dataset_structure", "metadata", "splits"):
                if key not in raw:
                    problems.append(f"dataset_info.json has no entry {key!r}")
            if fresh.metadata.model_dump() != md.model_dump():
                problems.append("metadata differs after reopen")
            if fresh.dataset_structure.model_dump() != st.model_dump():
                problems.append("dataset structure differs after reopen")
            if fresh._dataset_info.model_dump() != ds._dataset_info.model_dump():
                problems.append("the reopened description differs from the one the writer held")
            try:
                metas = [s.custom_metadata for s in fresh.shard_info_iterator("train")]
                if any(m != shard_meta for m in metas):
                    problems.append("shard-level custom metadata differs after reopen")
            except ValueError:
                pass
            out.append({"problems": problems, "format": fmt, "nkeys": len(md.custom_metadata)})
        except Exception as ex:  # noqa: BLE001
            out.append({"problems": [f"exception {type(ex).__name__}: {str(ex)[:200]}"], "format": "?"})
        finally:
            shutil.rmtree(tmp, ignore_errors=True)
    return out


def canon(d):
    """history_run dump with uuid names made canonical."""
    return json.loads(json.dumps({"info": d.get("info"), "iterate": d.get("iterate"), "problems": d.get("problems"), "check": d.get("check"),
                                  "error": d.get("error"), "trees": strip(d.get("trees"))}))


def strip(t):
    if isinstance(t, list):
        return [strip(x) for x in t]
    if isinstance(t, dict):
        return {k: strip(v) for k, v in t.items()}
    if isinstance(t, str) and t.startswith("u:"):
        return "u"
    return t


def relocate(jobs):
    res = []
    for job in jobs:
        tmp = Path(tempfile.mkdtemp(prefix="verif_reloc_")).resolve()
        cwd = os.getcwd()
        try:
            root = I.build(job["dataset"], tmp / "orig")
            base = canon(H.dump(Dataset(root), root, None))
            cases = []
            targets = [("nested", tmp / "a" / "b" / "c" / "ds", "abs"), ("unicode", tmp / "přesun 日本" / "ds", "abs"), ("blank", tmp / "my data set" / "the ds", "abs"),
                       # names that are not in Unicode normal form C (decomposed accent, ANGSTROM SIGN, conjoining jamo), a trailing dot, a leading dash
                       ("non_nfc", tmp / "cafe\u0301 \u212b \u1112\u1161\u11ab" / "ds", "abs"), ("odd_names", tmp / "-x y." / "ds.", "abs"),
                       ("relative", tmp / "work" / "sub" / "ds", "rel"), ("relative_then_chdir", tmp / "work2" / "sub" / "ds", "relcd"), ("dotdot", tmp / "sib" / "ds", "dotdot"), ("moved", tmp / "moved" / "ds", "move")]
            more = {"kind": "filler", "sub": [], "reopen": False, "ops": [["W", 0, None, True], ["W", 0, None, True], ["W", 1, None, True]]}
            # what continuing in the original gives
            ref_root = tmp / "ref" / "ds"
            shutil.copytree(root, ref_root)
            ds_ref = Dataset(ref_root)
            with H.DatasetFiller(ds_ref) as f:
                H.apply_ops(f, more["ops"], 5000)
            ref_after = canon(H.dump(Dataset(ref_root), ref_root, None))
            for name, dst, how in targets:
                dst.parent.mkdir(parents=True, exist_ok=True)
                if how == "move":
                    src_copy = tmp / "tomove" / "ds"
                    shutil.copytree(root, src_copy)
                    shutil.move(str(src_copy), str(dst))
                else:
                    shutil.copytree(root, dst)
                try:
                    if how in ("rel", "relcd"):
                        os.chdir(dst.parent.parent)
                        handle_path = Path("sub") / "ds"
                    elif how == "dotdot":
                        (tmp / "other").mkdir(exist_ok=True)
                        os.chdir(tmp / "other")
                        handle_path = Path("..") / "sib" / "ds"
                    else:
                        handle_path = dst
                    ds = Dataset(handle_path)
                    ds_w = Dataset(str(handle_path))
                    if how == "relcd":
                        # the handles were opened through a relative path; the process then changes its working directory
                        # (to a place where the same relative path names something else) and only then uses them
                        decoy = tmp / "decoy"
                        (decoy / "sub").mkdir(parents=True, exist_ok=True)
                        os.chdir(decoy)
                    before = canon(H.dump(ds, dst, None))
                    # the handle that is going to write has looked at the dataset before (and is looked through again afterwards)
                    H.dump(ds_w, dst, ds_w)
                    with H.DatasetFiller(ds_w) as f:
                        H.apply_ops(f, more["ops"], 5000)
                    after = canon(H.dump(Dataset(dst), dst, ds_w))
                    cases.append({"target": name, "same_before": before == base, "same_after": after == ref_after,
                                  "problems": (before.get("problems") or []) + (after.get("problems") or []), "error": None,
                                  "diff": None if after == ref_after else json.dumps(after)[:300]})
                except Exception as ex:  # noqa: BLE001
                    cases.append({"target": name, "error": f"{type(ex).__name__}: {str(ex)[:200]}", "same_before": False, "same_after": False, "problems": []})
                finally:
                    os.chdir(cwd)
            res.append({"cases": cases, "base_problems": base.get("problems")})
        except Exception as ex:  # noqa: BLE001
            res.append({"build_error": f"{type(ex).__name__}: {str(ex)[:300]}"})
        finally:
            os.chdir(cwd)
            shutil.rmtree(tmp, ignore_errors=True)
    return res


def versions(triples):
    tmp = Path(tempfile.mkdtemp(prefix="verif_ver_"))
    out = []
    try:
        ds = Dataset.create(path=tmp / "d", metadata=Metadata(description="v"), dataset_structure=DatasetStructure(
            saved_data_description=[Attribute(name="a", dtype="int32", shape=(1,))], shard_file_type="fb", compression=""))
        f = tmp / "d" / "dataset_info.json"
        orig = json.loads(f.read_text())
        for t in triples:
            d = json.loads(json.dumps(orig))
            d["metadata"]["sedpack_version"] = t if isinstance(t, str) else ".".join(str(x) for x in t)
            f.write_text(json.dumps(d))
            try:
                Dataset(tmp / "d")
                out.append("loads")
            except ValueError as ex:
                out.append("refused" if "outdated" in str(ex) or "version" in str(ex).lower() else "ValueError:" + str(ex)[:60])
            except Exception as ex:  # noqa: BLE001
                out.append("error:" + type(ex).__name__)
    finally:
        shutil.rmtree(tmp, ignore_errors=True)
    return {"running": sedpack.__version__, "outcomes": out}


def main():
    req = json.load(sys.stdin)
    res = {}
    if "describe" in req:
        res["describe"] = describe(req["describe"]["seed"], req["describe"]["n"])
    if "relocate" in req:
        res["relocate"] = relocate(req["relocate"])
    if "versions" in req:
        res["versions"] = versions(req["versions"])
    print("@@RESULT@@" + json.dumps(res))


if __name__ == "__main__":
    main()
