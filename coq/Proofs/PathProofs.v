(** C17: a path accepted by a validator stays inside the dataset root. *)
Require Import Sedpack.Model.Paths Sedpack.Generated.GenPaths.
From Coq Require Import Lia.
Open Scope list_scope.

(** Soundness of the generated validators: whatever they accept is relative and free of "..".
    (An edit that drops one of the tests breaks exactly these lemmas.) *)
Lemma fileinfo_sound p : fileinfo_rejects p = false -> has_dotdot p = false /\ is_absolute p = false.
Proof.
  unfold fileinfo_rejects. intros H.
  repeat match goal with H : (_ || _) = false |- _ => apply orb_false_iff in H; destruct H end.
  split; assumption.
Qed.

Lemma shardslist_sound p :
  shardslist_rejects p = false -> has_dotdot p = false /\ is_absolute p = false /\ name_is p "shards_list.json" = true.
Proof.
  unfold shardslist_rejects. intros H.
  repeat match goal with H : (_ || _) = false |- _ => apply orb_false_iff in H; destruct H end.
  repeat split; try assumption.
  match goal with H : negb _ = false |- _ => apply negb_false_iff in H; exact H end.
Qed.

Lemma shardlistinfo_sound p : shardlistinfo_rejects p = false -> name_is p "shards_list.json" = true.
Proof.
  unfold shardlistinfo_rejects. intros H.
  repeat match goal with H : (_ || _) = false |- _ => apply orb_false_iff in H; destruct H end.
  match goal with H : negb _ = false |- _ => apply negb_false_iff in H; exact H end.
Qed.

Lemma filler_sound p : filler_rejects p = false -> has_dotdot p = false /\ is_absolute p = false.
Proof.
  unfold filler_rejects. intros H.
  repeat match goal with H : (_ || _) = false |- _ => apply orb_false_iff in H; destruct H end.
  split; assumption.
Qed.

(** Normalisation is the identity on component lists without "..". *)
Definition nodd (cs : list string) : bool := negb (existsb (String.eqb "..") cs).

Lemma norm_aux_nodd cs : forall st, existsb (String.eqb "..") cs = false -> norm_aux cs st = rev st ++ cs.
Proof.
  induction cs as [|c t IH]; intros st H; simpl.
  - rewrite app_nil_r. reflexivity.
  - cbn [existsb] in H. apply orb_false_iff in H. destruct H as [Hc Ht].
    rewrite String.eqb_sym in Hc. rewrite Hc. rewrite IH by exact Ht. cbn [rev]. rewrite <- app_assoc. reflexivity.
Qed.

Lemma is_prefix_app a b : is_prefix a (a ++ b) = true.
Proof. induction a as [|x a IH]; simpl; [reflexivity|]. rewrite String.eqb_refl, IH. reflexivity. Qed.

Lemma existsb_app_false {A} (f : A -> bool) l1 l2 :
  existsb f l1 = false -> existsb f l2 = false -> existsb f (l1 ++ l2) = false.
Proof. intros H1 H2. rewrite existsb_app, H1, H2. reflexivity. Qed.

Lemma inside_join root p :
  root_ok root = true -> is_absolute p = false -> has_dotdot p = false -> inside root (join root p) = true.
Proof.
  unfold root_ok, inside, join, has_dotdot. intros Hr Ha Hd. apply andb_true_iff in Hr. destruct Hr as [Hra Hrd].
  apply negb_true_iff in Hrd. unfold has_dotdot in Hrd. rewrite Ha. simpl.
  rewrite norm_aux_nodd by (apply existsb_app_false; assumption). simpl.
  rewrite Nat.eqb_refl, is_prefix_app. reflexivity.
Qed.

(** A single plain component: what a split name or a generated file name is. *)
Definition plain (c : string) : ppath := {| p_root := 0; p_comps := [c] |}.

Lemma inside_join3 root split sub fname :
  root_ok root = true -> String.eqb ".." split = false -> String.eqb ".." fname = false ->
  is_absolute sub = false -> has_dotdot sub = false ->
  inside root (join (join (join root (plain split)) sub) (plain fname)) = true.
Proof.
  intros Hr Hs Hf Ha Hd.
  assert (E : join (join (join root (plain split)) sub) (plain fname)
              = join root {| p_root := 0; p_comps := split :: p_comps sub ++ [fname] |}).
  { unfold join, plain, is_absolute. cbn [p_root p_comps Nat.eqb negb].
    unfold is_absolute in Ha. rewrite Ha. cbn [p_root p_comps Nat.eqb negb].
    rewrite <- !app_assoc. reflexivity. }
  rewrite E. apply inside_join; [exact Hr | reflexivity |].
  unfold has_dotdot in *. cbn [p_comps existsb]. rewrite Hs. cbn [orb].
  apply existsb_app_false; [exact Hd|]. cbn [existsb]. rewrite Hf. reflexivity.
Qed.

Lemma fileinfo_inside_lemma root s :
  root_ok root = true -> fileinfo_rejects (parse s) = false -> inside root (join root (parse s)) = true.
Proof. intros Hr H. destruct (fileinfo_sound _ H). apply inside_join; assumption. Qed.

Lemma shardslist_inside_lemma root s :
  root_ok root = true -> shardslist_rejects (parse s) = false -> inside root (join root (parse s)) = true.
Proof. intros Hr H. destruct (shardslist_sound _ H) as (? & ? & ?). apply inside_join; assumption. Qed.

Lemma filler_inside_lemma root split sub fname :
  root_ok root = true -> String.eqb ".." split = false -> String.eqb ".." fname = false ->
  filler_rejects (parse sub) = false ->
  inside root (join (join (join root (plain split)) (parse sub)) (plain fname)) = true.
Proof. intros Hr Hs Hf H. destruct (filler_sound _ H). apply inside_join3; assumption. Qed.

(** The escape the validators exist to prevent is real in the model: an unvalidated absolute path
    or one with ".." does leave the root. *)
Lemma escape_examples :
  let root := parse "/data/set" in
  inside root (join root (parse "/etc/passwd")) = false /\
  inside root (join root (parse "train/../../other/x")) = false /\
  inside root (join root (parse "train/./a//b.fb")) = true.
Proof. vm_compute. repeat split. Qed.
