(** C14 for the lazy pool: the number of inputs taken from the iterable never exceeds the
    number of results handed to the consumer by more than 2T+2, under every schedule. *)
Require Import Sedpack.Model.Base Sedpack.Generated.GenLazyPool Sedpack.Model.LazyPool Sedpack.Proofs.LazyPoolInv.

Section B.
Variables A B : Type.
Variable f : A -> option B.
Variable T : nat.

Definition taken (n : nat) (s : st A B) : nat := n - length (src s).
Definition BInv (n : nat) (s : st A B) : Prop :=
  length (src s) <= n /\
  match pc s with
  | Prefill i => taken n s <= i /\ i <= 2 * T + 1 /\ out s = []
  | Put _ => taken n s <= 2 * T + 2 + length (out s)
  | _ => taken n s <= 2 * T + 2 + length (out s)
  end.

Lemma binv_init xs : BInv (length xs) (init A B T xs).
Proof. unfold BInv, taken, init; simpl. repeat split; try lia. Qed.

Lemma binv_step n s t s' : BInv n s -> step A B f T s t = Some s' -> BInv n s'.
Proof.
  unfold BInv, taken. intros (Hn & Hb) Hst. destruct t as [|[|w]]; simpl in Hst.
  - unfold cstep in Hst. destruct (pc s) eqn:Epc.
    + destruct Hb as (H1 & H2 & H3).
      destruct (prefill_break i T) eqn:El;
        [apply prefill_break_spec in El | assert (~ 2 * T < i) by (intros HH; apply prefill_break_spec in HH; congruence)];
      destruct (src s) as [|a s0] eqn:Es; simpl in Hst; injection Hst as <-; simpl in *; rewrite ?H3; simpl; repeat split; try lia.
    + destruct (rs s) as [|[b| |] r']; try discriminate; injection Hst as <-; simpl; try lia.
      destruct (active s - 1 =? 0); simpl; lia.
    + destruct (src s) as [|a s0] eqn:Es; simpl in Hst; injection Hst as <-; simpl in *; rewrite ?app_length; simpl; lia.
    + destruct k; injection Hst as <-; simpl; lia.
    + discriminate.
  - unfold astep in Hst. destruct (pc s); try discriminate. injection Hst as <-. simpl. lia.
  - unfold wstep in Hst. destruct (nth_error (wk s) w) as [[|a| | |]|]; try discriminate.
    + destruct (tp s) as [|[a|] t']; try discriminate; injection Hst as <-; simpl; exact (conj Hn Hb).
    + destruct (f a); [|destruct worker_on_exception]; injection Hst as <-; simpl; exact (conj Hn Hb).
    + injection Hst as <-; simpl; exact (conj Hn Hb).
Qed.

Lemma lp_inflight_lemma xs s : reach A B f T xs s -> length xs - length (src s) <= 2 * T + 2 + length (out s).
Proof.
  intros Hr. assert (H : BInv (length xs) s) by (induction Hr; [apply binv_init | eapply binv_step; eauto]).
  destruct H as (Hn & Hb). unfold taken in Hb. destruct (pc s); lia.
Qed.
End B.
