Require Import Coq.Strings.String.
Require Import Sedpack.Model.Base Sedpack.Generated.GenWriters Sedpack.Model.Writers.
Open Scope list_scope.

(** * FlatBuffers *)
Lemma fb_rejected_no_trace attrs s w : snd (fb_write attrs s w) = false -> fb_examples (fst (fb_write attrs s w)) = fb_examples s.
Proof.
  unfold fb_write. destruct (base_before_write && negb (base_check attrs (w_vals w))); [reflexivity|].
  destruct (fb_attrs (w_vals w) 0); cbn; [discriminate | reflexivity].
Qed.
Lemma fb_accepted_appends attrs s w : snd (fb_write attrs s w) = true -> fb_examples (fst (fb_write attrs s w)) = fb_examples s ++ [w_id w].
Proof.
  unfold fb_write. destruct (base_before_write && negb (base_check attrs (w_vals w))); [discriminate|].
  destruct (fb_attrs (w_vals w) 0); cbn; [reflexivity | discriminate].
Qed.
Lemma fb_run_gen attrs ws : forall s acc,
  let r := fold_left (fun (a : fbst * list nat) w => let (s', ok) := fb_write attrs (fst a) w in (s', if ok then snd a ++ [w_id w] else snd a)) ws (s, acc) in
  fst r = fold_left (fun s w => fst (fb_write attrs s w)) ws s /\
  (fb_examples s = acc -> fb_examples (fst r) = snd r).
Proof.
  induction ws as [|w ws IH]; intros s acc; cbn [fold_left]; [split; auto|].
  cbn [fst snd]. destruct (fb_write attrs s w) as [s' ok] eqn:E.
  specialize (IH s' (if ok then acc ++ [w_id w] else acc)). cbn zeta in IH. destruct IH as [I1 I2].
  replace (fst (s', ok)) with s' by reflexivity. split; [exact I1|].
  intros H. apply I2. destruct ok.
  - rewrite <- H. pose proof (fb_accepted_appends attrs s w) as A. rewrite E in A. apply A. reflexivity.
  - rewrite <- H. pose proof (fb_rejected_no_trace attrs s w) as A. rewrite E in A. apply A. reflexivity.
Qed.
Theorem fb_all_or_nothing attrs ws : fb_examples (run_fb attrs ws) = accepted_fb attrs ws.
Proof.
  unfold run_fb, accepted_fb.
  destruct (fb_run_gen attrs ws {| fb_examples := []; fb_garbage := 0 |} []) as [H1 H2]. cbn zeta in *.
  rewrite <- H1. apply H2. reflexivity.
Qed.

(** * npz *)
Definition uniform (n : nat) (s : npzst) : Prop :=
  s = [] \/ (map fst s = seq 0 n /\ exists l, forall e, List.In e s -> snd e = l).

Lemma keys_ok n w : names_ok n w = true -> keys_of w = seq 0 n.
Proof.
  unfold names_ok, keys_of. intros H. apply andb_true_iff in H as [H Hl]. apply andb_true_iff in H as [He Hm].
  apply negb_true_iff in He. rewrite He, app_nil_r. apply Nat.eqb_eq in Hl. subst n.
  generalize 0. induction (w_vals w) as [|v t IH]; intros k; [reflexivity|].
  cbn [length seq combine flat_map forallb] in *. apply andb_true_iff in Hm as [Hv Ht].
  destruct v; try discriminate; cbn [fst snd app]; f_equal; apply IH; exact Ht.
Qed.


(** appending along exactly the buffer's own keys succeeds and extends every buffer *)
Lemma npz_append_all id : forall (done todo : npzst) l,
  NoDup (map fst (done ++ todo)) ->
  (forall e, List.In e todo -> snd e = l) -> (forall e, List.In e done -> snd e = l ++ [id]) ->
  exists buf', npz_append (done ++ todo) (map fst todo) id = (buf', true) /\ map fst buf' = map fst (done ++ todo) /\
               forall e, List.In e buf' -> snd e = l ++ [id].
Proof.
  intros done todo; revert done. induction todo as [|[k v] t IH]; intros done l ND Ht Hd.
  - cbn. exists (done ++ []). repeat split; auto. intros e He. rewrite app_nil_r in He. auto.
  - cbn [map fst npz_append].
    assert (Hex : existsb (fun e => fst e =? k) (done ++ (k, v) :: t) = true).
    { apply existsb_exists. exists (k, v). split; [apply in_or_app; right; left; reflexivity | apply Nat.eqb_refl]. }
    rewrite Hex.
    assert (Hmap : map (fun e : nat * list nat => if fst e =? k then (fst e, snd e ++ [id]) else e) (done ++ (k, v) :: t) = (done ++ [(k, l ++ [id])]) ++ t).
    { rewrite map_app. cbn [map fst snd]. rewrite Nat.eqb_refl. rewrite <- app_assoc. cbn [app]. 
      rewrite map_app, map_cons in ND. cbn [fst] in ND. apply NoDup_remove_2 in ND.
      f_equal; [|f_equal].
      - rewrite <- (map_id done) at 2. apply map_ext_in. intros e He. destruct (Nat.eqb_spec (fst e) k); [|reflexivity].
        exfalso. apply ND. apply in_or_app. left. subst k. apply in_map. exact He.
      - pose proof (Ht (k, v) (or_introl eq_refl)) as Hv. cbn [snd] in Hv. rewrite Hv. reflexivity.
      - rewrite <- (map_id t) at 2. apply map_ext_in. intros e He. destruct (Nat.eqb_spec (fst e) k); [|reflexivity].
        exfalso. apply ND. apply in_or_app. right. subst k. apply in_map. exact He. }
    rewrite Hmap.
    destruct (IH (done ++ [(k, l ++ [id])]) l) as [buf' [E [K U]]].
    + rewrite <- app_assoc. cbn [app]. rewrite !map_app in *. cbn [map fst] in *. exact ND.
    + intros e He. apply Ht. right. exact He.
    + intros e He. apply in_app_or in He as [He | [He | []]]; [apply Hd; exact He | subst e; reflexivity].
    + exists buf'. split; [exact E|]. split; [|exact U]. rewrite K. rewrite <- app_assoc. cbn [app]. rewrite !map_app. reflexivity.
Qed.

Section NPZ.
Hypothesis checks : npz_checks_names = true.
Variable attrs : list attr.
Hypothesis nonempty : attrs <> [].

Definition good (s : npzst) (ids : list nat) : Prop :=
  (s = [] /\ ids = []) \/ (map fst s = seq 0 (length attrs) /\ forall e, List.In e s -> snd e = ids).

Lemma npz_step s ids w : good s ids ->
  let r := npz_write attrs s w in good (fst r) (if snd r then ids ++ [w_id w] else ids).
Proof.
  intros G. unfold npz_write. destruct (base_before_write && negb (base_check attrs (w_vals w))); [exact G|].
  rewrite checks. cbn [andb]. destruct (names_ok (length attrs) w) eqn:N; cbn [negb]; [|exact G].
  pose proof (keys_ok _ _ N) as K. destruct G as [[-> ->] | [Hk Hu]].
  - cbn [fst snd]. right. rewrite K. split.
    + rewrite map_map. cbn [fst]. apply map_id.
    + intros e He. apply in_map_iff in He as [k [<- _]]. reflexivity.
  - destruct s as [|e0 s0] eqn:Es.
    { exfalso. cbn in Hk. destruct attrs; [apply nonempty; reflexivity | discriminate]. }
    rewrite <- Es in *. rewrite K, <- Hk.
    destruct (npz_append_all (w_id w) [] s ids) as [buf' [E [Kb U]]].
    + cbn [app]. rewrite Hk. apply seq_NoDup.
    + exact Hu.
    + intros e [].
    + cbn [app] in E, Kb. rewrite E. cbn [fst snd]. right. split; [rewrite Kb; exact Hk | exact U].
Qed.

Lemma npz_run_gen ws : forall s ids, good s ids ->
  let r := fold_left (fun (a : npzst * list nat) w => let (s', ok) := npz_write attrs (fst a) w in (s', if ok then snd a ++ [w_id w] else snd a)) ws (s, ids) in
  fst r = fold_left (fun s w => fst (npz_write attrs s w)) ws s /\ good (fst r) (snd r).
Proof.
  induction ws as [|w ws IH]; intros s ids G; cbn [fold_left]; [split; auto|].
  cbn [fst snd]. pose proof (npz_step s ids w G) as St. cbn zeta in St.
  destruct (npz_write attrs s w) as [s' ok]. cbn [fst snd] in St.
  apply (IH s' _ St).
Qed.

Lemma good_readable s ids : good s ids -> npz_readable s = true /\ npz_ids s = ids.
Proof.
  intros [[-> ->] | [Hk Hu]]; [split; reflexivity|].
  destruct s as [|[k l] t]; [exfalso; cbn in Hk; destruct attrs; [apply nonempty; reflexivity | discriminate]|].
  cbn [npz_readable npz_ids]. split.
  - apply forallb_forall. intros e He. rewrite (Hu e (or_intror He)). pose proof (Hu (k, l) (or_introl eq_refl)) as Hl. cbn [snd] in Hl. rewrite Hl. apply Nat.eqb_refl.
  - apply (Hu (k, l)). left. reflexivity.
Qed.

Theorem npz_all_or_nothing ws : npz_readable (run_npz attrs ws) = true /\ npz_ids (run_npz attrs ws) = accepted_npz attrs ws.
Proof.
  unfold run_npz, accepted_npz. destruct (npz_run_gen ws [] []) as [H1 H2]; [left; split; reflexivity|]. cbn zeta in *.
  rewrite <- H1. apply good_readable. exact H2.
Qed.
End NPZ.

(** without the name validation a write with a missing attribute is accepted and the shard is poisoned *)
Example npz_unchecked_poisoned :
  let attrs := [{| variable := false |}; {| variable := true |}] in
  let w0 := {| w_id := 0; w_vals := [AGood; AGood]; w_extra := false |} in
  let w1 := {| w_id := 1; w_vals := [AGood; AMissing]; w_extra := false |} in
  npz_checks_names = false -> npz_readable (run_npz attrs [w0; w1]) = false.
Proof. intros attrs w0 w1 H. unfold run_npz, npz_write. cbn [fold_left]. rewrite H. vm_compute. reflexivity. Qed.

(** * TFRecord *)
Lemma tf_run_gen attrs ws : forall s acc, s = acc ->
  let r := fold_left (fun (a : list nat * list nat) w => let (s', ok) := tf_write attrs (fst a) w in (s', if ok then snd a ++ [w_id w] else snd a)) ws (s, acc) in
  fst r = fold_left (fun s w => fst (tf_write attrs s w)) ws s /\ fst r = snd r.
Proof.
  induction ws as [|w ws IH]; intros s acc E; cbn [fold_left]; [split; auto|].
  cbn [fst snd]. destruct (tf_write attrs s w) as [s' ok] eqn:Ew. unfold tf_write in Ew.
  destruct (tf_ok attrs w); injection Ew as <- <-; cbn [fst snd]; apply IH; subst; reflexivity.
Qed.
Theorem tf_all_or_nothing attrs ws : run_tf attrs ws = accepted_tf attrs ws.
Proof. unfold run_tf, accepted_tf. destruct (tf_run_gen attrs ws [] [] eq_refl) as [H1 H2]. cbn zeta in *. rewrite <- H1. exact H2. Qed.

Lemma fkind_eqb_eq a b : fkind_eqb a b = true -> a = b.
Proof. destruct a, b; cbn; congruence. Qed.

Theorem tf_tables_agree d k : tf_lookup tf_writer_table d = Some k -> tf_lookup tf_reader_table d = Some k /\ k <> KFloat64.
Proof.
  assert (All : forallb tf_entry_ok tf_writer_table = true) by (vm_compute; reflexivity).
  unfold tf_lookup at 1. destruct (find _ tf_writer_table) as [e|] eqn:F; [|discriminate]. intros [= <-].
  apply find_some in F as [Hin Hd]. apply String.eqb_eq in Hd. subst d.
  pose proof (proj1 (forallb_forall _ _) All e Hin) as Ok. unfold tf_entry_ok in Ok.
  destruct (tf_lookup tf_reader_table (fst e)) as [k'|]; [|discriminate].
  apply andb_true_iff in Ok as [E N]. apply fkind_eqb_eq in E. subst k'. split; [reflexivity|].
  intros C. rewrite C in N. discriminate.
Qed.
