"""Shared machinery of the /verif checks: building the Coq development, running the
implementation, evaluating the Gallina model on generated cases, evidence, violations.

Everything here is deliberately plain: a check is a Python function `run(ctx)` in
harness/props/cXX.py; `ctx` is a `Ctx` object from this module.
"""
from __future__ import annotations

import fcntl
import hashlib
import json
import os
import random
import re
import subprocess
import sys
import time
from pathlib import Path

VERIF = Path(__file__).resolve().parent.parent
REPO = Path(os.environ.get("SEDPACK_REPO", "/repo"))
COQ = VERIF / "coq"
BUILD = VERIF / "build"
IMPL_PY = "/venv/bin/python"
GUARD = "SEDPACK_VERIF"

NOISE = re.compile(r"WARNING conda|^\s*$|tensorflow|oneDNN|cpu_feature_guard|"
                   r"rebuild TensorFlow|E0000|W0000|I0000|computation_placer|"
                   r"cuda|absl::InitializeLog|All log messages")


class Broken(Exception):
    """A proof obligation, the translator or the correspondence no longer checks."""

    def __init__(self, what: str, detail: str = ""):
        super().__init__(what)
        self.what = what
        self.detail = detail


def sh(cmd, timeout=600, cwd=None, env=None, input_=None):
    """Run a command, return (rc, stdout, stderr).  Never raises on failure."""
    e = dict(os.environ)
    if env:
        e.update(env)
    try:
        p = subprocess.run(cmd, cwd=cwd, env=e, input=input_, capture_output=True,
                           text=True, timeout=timeout, shell=isinstance(cmd, str))
        return p.returncode, p.stdout, p.stderr
    except subprocess.TimeoutExpired as ex:
        out = ex.stdout.decode() if isinstance(ex.stdout, bytes) else (ex.stdout or "")
        err = ex.stderr.decode() if isinstance(ex.stderr, bytes) else (ex.stderr or "")
        return 124, out, err + "\nTIMEOUT"


def impl_env(extra=None):
    """Environment in which the implementation under /repo is executed."""
    overlay = BUILD / "overlay"
    pp = [str(REPO / "src")]
    if (overlay / "sedpack").exists():
        pp.insert(0, str(overlay))
    env = {
        "PYTHONPATH": os.pathsep.join(pp + [str(VERIF / "harness" / "impl")]),
        "PYTHONHASHSEED": "0",
        "TF_CPP_MIN_LOG_LEVEL": "3",
        "PYTHONDONTWRITEBYTECODE": "1",
        "CUDA_VISIBLE_DEVICES": "",
        GUARD: "1",
    }
    if extra:
        env.update(extra)
    return env


def run_impl(script: str, payload, timeout=900, extra_env=None, args=()):
    """Run harness/impl/<script> under the implementation interpreter with the JSON
    payload on stdin; the script prints one JSON document on its last stdout line."""
    path = VERIF / "harness" / "impl" / script
    rc, out, err = sh([IMPL_PY, str(path), *args], timeout=timeout, env=impl_env(extra_env),
                      input_=json.dumps(payload))
    lines = [l for l in out.splitlines() if l.startswith("@@RESULT@@")]
    if rc != 0 or not lines:
        tail = "\n".join([l for l in (out + "\n" + err).splitlines() if not NOISE.search(l)][-30:])
        raise RuntimeError(f"implementation runner {script} failed rc={rc}:\n{tail}")
    return json.loads(lines[-1][len("@@RESULT@@"):])


def ensure_native():
    """Rebuild the Rust extension from /repo/rust (incremental) into the overlay package used by all implementation runs."""
    with Lock("native"):
        rc, out, err = sh([str(VERIF / "tools" / "build_native.sh")], timeout=1500)
    if rc:
        raise Broken("the Rust extension under /repo/rust no longer builds", (out + err)[-3000:])


class Lock:
    def __init__(self, name="coq"):
        BUILD.mkdir(exist_ok=True)
        self.path = BUILD / f".{name}.lock"

    def __enter__(self):
        self.f = open(self.path, "w")
        fcntl.flock(self.f, fcntl.LOCK_EX)
        return self

    def __exit__(self, *a):
        fcntl.flock(self.f, fcntl.LOCK_UN)
        self.f.close()


# ---------------------------------------------------------------------------
# Coq

FORBIDDEN = re.compile(r"\b(Admitted|admit|Axiom|Axioms|Parameter|Parameters|Conjecture|"
                       r"Hypothesis|Hypotheses|Variable|Variables|Unset Guard|bypass_check|Admit Obligations|"
                       r"native_compute|type-in-type|impredicative-set)\b")


def strip_comments(text: str) -> str:
    out, depth, i = [], 0, 0
    while i < len(text):
        if text.startswith("(*", i):
            depth += 1
            i += 2
        elif text.startswith("*)", i) and depth:
            depth -= 1
            i += 2
        else:
            if not depth:
                out.append(text[i])
            i += 1
    return "".join(out)


def grep_gate():
    """No Admitted/Axiom/... anywhere; Variable/Hypothesis only inside Sections."""
    bad = []
    for v in sorted(COQ.rglob("*.v")):
        text = strip_comments(v.read_text())
        depth = 0
        for ln, line in enumerate(text.splitlines(), 1):
            if re.match(r"\s*Section\b", line):
                depth += 1
            m = FORBIDDEN.search(line)
            if m:
                w = m.group(1)
                if w in ("Variable", "Variables", "Hypothesis", "Hypotheses") and depth > 0:
                    pass
                else:
                    bad.append(f"{v.relative_to(COQ)}:{ln}: {w}")
            if re.match(r"\s*End\b", line) and depth:
                depth -= 1
    (cp := COQ / "_CoqProject")
    if re.search(r"type-in-type|impredicative-set|-vos|-vok", cp.read_text()):
        bad.append("_CoqProject: forbidden flag")
    return bad


def coq_make(targets, timeout=1500, jobs=8):
    """Full .vo build of the given targets (paths relative to coq/) through coq_makefile."""
    with Lock("coq"):
        if not (COQ / "Makefile").exists() or (COQ / "Makefile").stat().st_mtime < (COQ / "_CoqProject").stat().st_mtime:
            rc, out, err = sh("coq_makefile -f _CoqProject -o Makefile", cwd=COQ)
            if rc:
                raise Broken("coq_makefile", out + err)
        rc, out, err = sh(["timeout", str(timeout), "make", f"-j{jobs}", *targets], cwd=COQ, timeout=timeout + 30)
    return rc, out + err


def coqc_file(rel, timeout=600):
    """Compile one file directly, capturing its output (used for Properties/Cxx.v so that the
    Print Assumptions answers are seen by the check)."""
    with Lock("coq"):
        rc, out, err = sh(["timeout", str(timeout), "coqc", "-q", "-Q", ".", "Sedpack", rel], cwd=COQ, timeout=timeout + 30)
    return rc, out, err


ALLOWED_AXIOMS: set[str] = set()  # intended: every property theorem closed under the global context


def generated_deps(rel: str) -> list[str]:
    """Names of the Generated/Gen*.v files a development file depends on, transitively (through its Require lines)."""
    seen, todo, gens = set(), [rel], set()
    while todo:
        f = todo.pop()
        if f in seen or not (COQ / f).exists():
            continue
        seen.add(f)
        body = strip_comments((COQ / f).read_text())
        for d in re.findall(r"Require\s+(?:Import|Export)?\s*([\w.\s]+?)\.\s", body):
            for name in d.split():
                name = name.replace("Sedpack.", "")
                if name.startswith("Generated."):
                    gens.add(name.split(".", 1)[1])
                elif name.startswith(("Model.", "Proofs.", "Properties.")):
                    todo.append(name.replace(".", "/") + ".v")
    return sorted(gens)


def check_property_file(pid: str):
    """Regenerate every kernel the property file depends on (transitively) from the current source, build the dependencies of
    Properties/<pid>.v, compile it, and account for every theorem in it.
    Returns dict(obligations, discharged, theorems, assumptions).  Raises Broken."""
    rel = f"Properties/{pid}.v"
    from translator import pygen
    deps = generated_deps(rel)
    tr = pygen.regenerate(REPO, COQ / "Generated", only=deps)
    for g in deps:
        if tr.get(g):
            raise Broken(f"translator: {g} (a kernel the theorems of {pid} depend on can no longer be regenerated from the source)", tr[g])
    src = (COQ / rel).read_text()
    body = strip_comments(src)
    theorems = re.findall(r"^\s*Theorem\s+(\w+)", body, re.M)
    printed = re.findall(r"^\s*Print Assumptions\s+(\w+)\s*\.", body, re.M)
    if sorted(theorems) != sorted(printed):
        raise Broken(f"{rel}: every Theorem needs a Print Assumptions", f"{theorems} vs {printed}")
    bad = grep_gate()
    if bad:
        raise Broken("grep gate: forbidden vernacular in the development", "\n".join(bad))
    deps = re.findall(r"^\s*(?:From\s+Sedpack\s+)?Require\s+(?:Import|Export)?\s*([\w.\s]+?)\.\s*$", body, re.M)
    targets = []
    for d in deps:
        for name in d.split():
            name = name.replace("Sedpack.", "")
            p = name.replace(".", "/") + ".vo"
            if (COQ / p[:-1]).exists():
                targets.append(p)
    rc, log = coq_make(targets)
    if rc:
        m = re.search(r'File "\./([^"]+)", line (\d+)', log)
        where = f"{m.group(1)}:{m.group(2)}" if m else "?"
        raise Broken(f"proof obligation no longer checks (make failed at {where})", log[-3000:])
    rc, out, err = coqc_file(rel)
    if rc:
        m = re.search(r'line (\d+)', err)
        # which theorem encloses the failing line?
        failing = "?"
        if m:
            ln = int(m.group(1))
            upto = "\n".join(src.splitlines()[:ln])
            ths = re.findall(r"Theorem\s+(\w+)", strip_comments(upto))
            failing = ths[-1] if ths else "?"
        raise Broken(f"theorem {failing} in {rel} no longer checks", (out + err)[-3000:])
    # parse assumptions: each Print Assumptions answer is either "Closed under the global context"
    # or "Axioms:" followed by the list up to the next answer
    answers = re.split(r"(?=Closed under the global context|Axioms:)", out)
    answers = [a for a in answers if a.startswith("Closed") or a.startswith("Axioms:")]
    if len(answers) != len(theorems):
        raise Broken(f"{rel}: {len(theorems)} theorems but {len(answers)} Print Assumptions answers", out[-2000:])
    assumptions, discharged = {}, 0
    for th, a in zip(printed, answers):
        if a.startswith("Closed"):
            assumptions[th] = []
            discharged += 1
        else:
            names = re.findall(r"^(\S+)\s*:", a[len("Axioms:"):], re.M)
            assumptions[th] = names
            if set(names) <= ALLOWED_AXIOMS:
                discharged += 1
    if discharged != len(theorems):
        raise Broken(f"{rel}: assumptions outside the whitelist", json.dumps(assumptions))
    return {"obligations": len(theorems), "discharged": discharged, "theorems": theorems,
            "assumptions": assumptions}


def coqchk(pid: str, timeout=1500):
    with Lock("coq"):
        rc, out, err = sh(["timeout", str(timeout), "coqchk", "-silent", "-o", "-Q", ".", "Sedpack", f"Sedpack.Properties.{pid}"],
                          cwd=COQ, timeout=timeout + 30)
    return rc, out + err


def coq_eval(pid: str, name: str, text: str, timeout=900):
    """Write build/cases/<pid>/<name>.v, compile it, return its stdout (the `Eval`/`Compute` answers)."""
    d = BUILD / "cases" / pid
    d.mkdir(parents=True, exist_ok=True)
    f = d / f"{name}.v"
    f.write_text(text)
    rc, out, err = sh(["timeout", str(timeout), "coqc", "-q", "-Q", str(COQ), "Sedpack", "-Q", str(d), f"Cases{pid}", str(f)],
                      cwd=d, timeout=timeout + 30)
    if rc:
        raise Broken(f"model evaluation {pid}/{name}.v failed", (out + err)[-3000:])
    return out


def coq_eval_many(pid: str, files: dict[str, str], jobs=8, timeout=900):
    """Compile several independent case files in parallel; returns {name: stdout}."""
    from concurrent.futures import ThreadPoolExecutor
    with ThreadPoolExecutor(max_workers=jobs) as ex:
        futs = {n: ex.submit(coq_eval, pid, n, t, timeout) for n, t in files.items()}
        return {n: f.result() for n, f in futs.items()}


def parse_coq_list(out: str):
    """Parse the answer of `Eval vm_compute in (... : list nat/Z/bool ...)` into Python.
    Handles nested lists, pairs, numbers with %Z/%N/%nat scopes, true/false, strings."""
    # take everything after the first '=' up to the last ':' type annotation
    m = re.search(r"=\s*(.*)\n\s*:\s", out, re.S)
    body = m.group(1) if m else out
    body = re.sub(r"%(Z|N|nat|positive|string|char)", "", body)
    body = body.replace(";", ",").replace("true", "True").replace("false", "False")
    body = re.sub(r"\bSome\s+", "", body).replace("None", "None")
    body = re.sub(r"\s+", " ", body)
    body = body.replace("\\", "\\\\")      # a back-slash inside a printed Coq string is a plain character
    return eval(body, {"__builtins__": {}}, {})  # noqa: S307 - our own coqc output


def coq_answers(out: str):
    """Split the stdout of a case file into its successive `= ... : type` answers."""
    parts = re.split(r"^\s*=\s", out, flags=re.M)[1:]
    res = []
    for p in parts:
        p = re.sub(r"\n\s*:\s[^\n]*(\n[^=\n][^\n]*)*$", "", p.rstrip(), flags=re.S)
        res.append("= " + p + "\n : x\n")
    return [parse_coq_list(r) for r in res]


# ---------------------------------------------------------------------------
# Coq literal printers

def cnat(n): return f"{int(n)}"
def cZ(n): return f"({int(n)})%Z"
def cN(n): return f"{int(n)}%N"
def cbool(b): return "true" if b else "false"
def clist(xs, f=str): return "[" + "; ".join(f(x) for x in xs) + "]"
def copt(x, f=str): return "None" if x is None else f"(Some {f(x)})"


def cstring(s: str) -> str:
    assert all(32 <= ord(c) < 127 for c in s), s
    return '"' + s.replace('"', '""') + '"'


# ---------------------------------------------------------------------------
# Known findings, violations, evidence

def known_findings():
    p = VERIF / "known_findings.json"
    return json.loads(p.read_text())["findings"] if p.exists() else []


class Ctx:
    def __init__(self, pid: str, tier: str, seed: int):
        self.pid, self.tier, self.seed = pid, tier, seed
        self.rng = random.Random((seed, pid).__repr__())
        self.t0 = time.time()
        self.violations: list[dict] = []
        self.known_hits: list[str] = []
        self.coverage: dict = {"samples": []}
        self.assumptions: list[str] = []
        self.quick = tier == "quick"

    def scale(self, quick, thorough):
        return quick if self.quick else thorough

    # -- findings -------------------------------------------------------------
    def report(self, signature: str, what: str, replay: dict, found_input=True):
        """A property failure observed on the implementation (or an unchecked obligation).
        `signature` identifies the failing input class; it is matched against known_findings.json."""
        for k in known_findings():
            if k["property"] == self.pid and k.get("status") == "known" and re.fullmatch(k["signature"], signature):
                line = f"KNOWN-FINDING: property={self.pid} {k['id']} {k['what']}"
                if line not in self.known_hits:
                    self.known_hits.append(line)
                    print(line, flush=True)
                return
        h = hashlib.sha1((signature + json.dumps(replay, sort_keys=True, default=str)).encode()).hexdigest()[:10]
        path = VERIF / "replays" / f"{self.pid}-{h}.json"
        path.parent.mkdir(exist_ok=True)
        path.write_text(json.dumps({"property": self.pid, "signature": signature, "what": what,
                                    "found_input": found_input, "replay": replay, "seed": self.seed,
                                    "tier": self.tier}, indent=1, default=str))
        self.violations.append({"signature": signature, "what": what, "path": str(path), "found_input": found_input})

    def sample(self, x, limit=6):
        if len(self.coverage["samples"]) < limit:
            self.coverage["samples"].append(x)

    def finish(self, level="proof"):
        cov = self.coverage
        ev = {
            "property_id": self.pid, "tier": self.tier, "seed": self.seed, "level": level,
            "coverage": cov, "assumptions": self.assumptions,
            "wall_s": round(time.time() - self.t0, 2), "violations": len(self.violations),
            "known_findings_reproduced": self.known_hits,
        }
        (VERIF / "evidence").mkdir(exist_ok=True)
        (VERIF / "evidence" / f"{self.pid}.json").write_text(json.dumps(ev, indent=1, default=str) + "\n")
        # one VIOLATION line per distinct failing class, inputs found first
        seen = set()
        for v in sorted(self.violations, key=lambda v: not v["found_input"]):
            if v["signature"] in seen:
                continue
            seen.add(v["signature"])
            tail = "" if v["found_input"] else " no-failing-input-found"
            print(f"# {v['what']}")
            print(f"VIOLATION property={self.pid} replay={v['path']}{tail}", flush=True)
        if not self.violations:
            c = self.coverage
            print(f"OK property={self.pid} tier={self.tier} theorems={c.get('discharged')}/{c.get('obligations')} "
                  f"cases={c.get('evaluations')} nontrivial={c.get('distinct_nontrivial')} wall={ev['wall_s']}s", flush=True)
        return 1 if self.violations else 0


TRUSTED_BASE_COMMON = [
    "Coq 8.16.1 kernel and vm_compute (no native_compute); full .vo build via coq_makefile",
    "Print Assumptions under every property theorem: closed under the global context (no axioms)",
    "translator/pygen.py (Python ast -> Gallina decision kernels, fail-closed), regenerated from /repo on every run",
    "correspondence harness under /verif/harness (generators, canonicalisation, coqc evaluation of the model on the same cases)",
]
