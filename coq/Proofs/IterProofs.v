(** Shuffle buffer, round robin and batches: nothing lost, nothing duplicated, bounded read-ahead. *)
Require Import Sedpack.Model.Base Sedpack.Generated.GenIter Sedpack.Model.Iter.
From Coq Require Import Permutation.

Lemma fill_continue_spec len b : fill_continue len b = true <-> len < b.
Proof. unfold fill_continue. apply Nat.ltb_lt. Qed.

(** ** list facts *)
Section L.
Variable A : Type.

Lemma replace_length (l : list A) i x : length (replace l i x) = length l.
Proof. revert i; induction l; intros [|i]; simpl; auto. Qed.

Lemma removelast_len (l : list A) : length (removelast l) = length l - 1.
Proof. induction l as [|h t IH]; simpl; auto. destruct t; simpl in *; lia. Qed.

Lemma perm_replace (l : list A) i x d : i < length l -> Permutation (nth i l d :: replace l i x) (x :: l).
Proof.
  revert i; induction l as [|h t IH]; intros [|i] Hi; simpl in *; try lia.
  - apply perm_swap.
  - eapply perm_trans; [apply perm_swap|]. eapply perm_trans; [apply perm_skip, IH; lia|]. apply perm_swap.
Qed.

Lemma concat_replace_cons (buf : list (list A)) pos x t :
  pos < length buf -> nth pos buf [] = x :: t -> Permutation (x :: concat (replace buf pos t)) (concat buf).
Proof.
  revert pos; induction buf as [|h r IH]; intros [|pos] Hp Hn; simpl in *; try lia.
  - subst h. reflexivity.
  - eapply perm_trans; [apply Permutation_middle|]. apply Permutation_app_head. apply IH; [lia|exact Hn].
Qed.

Lemma concat_replace_nil (buf : list (list A)) pos l :
  pos < length buf -> nth pos buf [] = [] -> Permutation (concat (replace buf pos l)) (l ++ concat buf).
Proof.
  revert pos; induction buf as [|h r IH]; intros [|pos] Hp Hn; simpl in *; try lia.
  - subst h. reflexivity.
  - eapply perm_trans; [apply Permutation_app_head, IH; [lia|exact Hn]|].
    rewrite !app_assoc. apply Permutation_app_tail. apply Permutation_app_comm.
Qed.

Lemma concat_removelast_last (buf : list (list A)) : buf <> [] -> concat (removelast buf) ++ last buf [] = concat buf.
Proof.
  induction buf as [|h r IH]; [congruence|]. intros _. destruct r as [|h2 r2].
  - simpl. rewrite app_nil_r. reflexivity.
  - change (removelast (h :: h2 :: r2)) with (h :: removelast (h2 :: r2)).
    change (last (h :: h2 :: r2) []) with (last (h2 :: r2) []).
    change (concat (h :: removelast (h2 :: r2))) with (h ++ concat (removelast (h2 :: r2))).
    change (concat (h :: h2 :: r2)) with (h ++ concat (h2 :: r2)).
    rewrite <- app_assoc. f_equal. apply IH. discriminate.
Qed.

Lemma replace_nonempty (buf : list (list A)) pos l : buf <> [] -> replace buf pos l <> [].
Proof. destruct buf; [congruence|]. destruct pos; simpl; discriminate. Qed.

Lemma last_cons_ne (h : list A) (l : list (list A)) : l <> [] -> last (h :: l) [] = last l [].
Proof. destruct l; [congruence|reflexivity]. Qed.

Lemma last_replace_lt (buf : list (list A)) pos l : S pos < length buf -> last (replace buf pos l) [] = last buf [].
Proof.
  revert pos; induction buf as [|h r IH]; intros pos Hp; simpl in Hp; [lia|].
  assert (Hr : r <> []) by (destruct r; simpl in *; [lia|discriminate]).
  destruct pos as [|pos]; cbn [replace].
  - rewrite !last_cons_ne by exact Hr. reflexivity.
  - rewrite (last_cons_ne h r Hr). rewrite last_cons_ne by (apply replace_nonempty; exact Hr). apply IH. lia.
Qed.

(** Moving the last iterator into an exhausted slot and dropping the last slot keeps the contents. *)
Lemma concat_move_last (buf : list (list A)) pos :
  pos < length buf -> nth pos buf [] = [] ->
  Permutation (concat (removelast (replace buf pos (last buf [])))) (concat buf).
Proof.
  intros Hp Hn.
  assert (Hne : buf <> []) by (destruct buf; simpl in *; [lia|discriminate]).
  destruct (Nat.eq_dec (S pos) (length buf)) as [Hl|Hl].
  - (* the exhausted slot is the last one *)
    assert (Hlast : last buf [] = []).
    { clear - Hn Hl. revert pos Hn Hl; induction buf as [|h r IH]; intros pos Hn Hl; simpl in *; [lia|].
      destruct r as [|h2 r2]; simpl in *.
      - destruct pos; [exact Hn|lia].
      - destruct pos as [|pos]; [lia|]. apply (IH pos); [exact Hn|lia]. }
    rewrite Hlast.
    assert (Hrep : replace buf pos [] = buf).
    { clear - Hn Hp. revert pos Hn Hp; induction buf as [|h r IH]; intros [|pos] Hn Hp; simpl in *; try lia; try congruence.
      f_equal. apply IH; [exact Hn|lia]. }
    rewrite Hrep. pose proof (concat_removelast_last buf Hne) as Hc. rewrite Hlast, app_nil_r in Hc. rewrite Hc. reflexivity.
  - assert (Hlt : S pos < length buf) by lia.
    set (buf' := replace buf pos (last buf [])).
    assert (Hne' : buf' <> []) by (apply replace_nonempty; exact Hne).
    assert (Hl' : last buf' [] = last buf []) by (apply last_replace_lt; exact Hlt).
    assert (Hc : Permutation (concat buf') (last buf [] ++ concat buf)) by (apply concat_replace_nil; assumption).
    rewrite <- (concat_removelast_last buf' Hne') in Hc. rewrite Hl' in Hc.
    apply Permutation_app_inv_r with (l := last buf []).
    eapply perm_trans; [exact Hc|]. apply Permutation_app_comm.
Qed.
End L.

(** ** shuffle_buffer *)
Section SB.
Variable A : Type.
Variable pick : nat -> nat -> nat.
Variable perm : list A -> list A.
Variable b : nat.
Hypothesis pick_lt : forall j len, 0 < len -> pick j len < len.
Hypothesis perm_ok : forall l, Permutation (perm l) l.

Definition drain_of (p : @sb_phase A) : list A := match p with SbDrain r => r | _ => [] end.

(** Read-ahead invariant, for an arbitrary source (finite or endless). *)
Section AnySource.
Variable src : @source A.
Notation step := (sb_step src pick perm b).
Definition SbBound (st : sb_state A (s_state src)) : Prop :=
  sb_pulled st = length (sb_out st) + length (sb_buf st) + length (drain_of (sb_ph st)) /\
  length (sb_buf st) <= b /\ length (drain_of (sb_ph st)) <= b /\
  (forall r, sb_ph st = SbDrain r -> sb_buf st = []).

Lemma sb_bound_init s0 : SbBound (sb_init src s0).
Proof. unfold SbBound, sb_init; simpl. repeat split; try lia; discriminate. Qed.

Lemma sb_bound_step st st' : SbBound st -> step st = Some st' -> SbBound st'.
Proof.
  intros (H1 & H2 & H3 & H4) Hs. unfold sb_step in Hs. destruct (sb_ph st) as [| |r|] eqn:Ep; simpl in *.
  - destruct (fill_continue (length (sb_buf st)) b) eqn:Ef.
    + apply fill_continue_spec in Ef. destruct (s_next src (sb_src st)) as [[x s']|]; injection Hs as <-;
        unfold SbBound; simpl; rewrite ?app_length; simpl; repeat split; try lia; discriminate.
    + injection Hs as <-. unfold SbBound; simpl; repeat split; try lia; discriminate.
  - destruct (s_next src (sb_src st)) as [[x s']|]; injection Hs as <-; unfold SbBound; simpl.
    + rewrite app_length, replace_length. simpl. repeat split; try lia; discriminate.
    + pose proof (Permutation_length (perm_ok (sb_buf st))). repeat split; try lia; auto.
  - rewrite (H4 r eq_refl) in *. simpl in *.
    destruct r as [|y t]; injection Hs as <-; unfold SbBound; simpl in *; rewrite ?app_length; simpl; repeat split; try lia; auto; discriminate.
  - discriminate.
Qed.

Lemma sb_bound_run fuel st : SbBound st -> SbBound (sb_run src pick perm b fuel st).
Proof.
  revert st; induction fuel as [|f IH]; intros st H; simpl; [exact H|].
  destruct (step st) as [st'|] eqn:E; [apply IH; eapply sb_bound_step; eauto | exact H].
Qed.

(** At every moment at most [b] elements more than were yielded have been taken from the source. *)
Lemma sb_readahead_lemma fuel s0 :
  let st := sb_run src pick perm b fuel (sb_init src s0) in sb_pulled st <= length (sb_out st) + b.
Proof.
  cbv zeta. destruct (sb_bound_run fuel _ (sb_bound_init s0)) as (H1 & H2 & H3 & H4).
  destruct (sb_ph (sb_run src pick perm b fuel (sb_init src s0))) as [| |r|] eqn:Ep; simpl in *; try lia.
  rewrite (H4 r eq_refl) in H1. simpl in H1. lia.
Qed.
End AnySource.

(** Exactly-once on a finite source. *)
Notation lsrc := (@list_source A).
Definition SbPerm (l : list A) (st : sb_state A (list A)) : Prop :=
  Permutation (sb_out st ++ sb_buf st ++ drain_of (sb_ph st) ++ sb_src st) l /\
  (sb_ph st = SbLoop -> length (sb_buf st) = b \/ sb_src st = []) /\
  (sb_ph st = SbDone -> sb_buf st = [] /\ sb_src st = []) /\
  (forall r, sb_ph st = SbDrain r -> sb_buf st = [] /\ sb_src st = []).

Hypothesis b_pos : 1 <= b.

Lemma sb_perm_init l : SbPerm l (sb_init lsrc l).
Proof. unfold SbPerm, sb_init; simpl. repeat split; try discriminate. reflexivity. Qed.

Lemma sb_perm_step l st st' : SbPerm l st -> length (sb_buf st) <= b -> sb_step lsrc pick perm b st = Some st' -> SbPerm l st'.
Proof.
  intros (Hp & Hl & Hd & Hdr) Hb Hs. unfold sb_step, list_source in Hs. simpl in Hs.
  destruct (sb_ph st) as [| |r|] eqn:Ep; simpl in Hp, Hs.
  - destruct (fill_continue (length (sb_buf st)) b) eqn:Ef.
    + destruct (sb_src st) as [|x s'] eqn:Es; injection Hs as <-; unfold SbPerm; simpl.
      * split; [exact Hp|]. repeat split; try discriminate; auto.
      * split; [rewrite <- app_assoc; simpl; exact Hp|]. repeat split; discriminate.
    + injection Hs as <-. unfold SbPerm; simpl. split; [exact Hp|]. repeat split; try discriminate.
      intros _. left. destruct (Nat.lt_ge_cases (length (sb_buf st)) b) as [Hlt|Hge]; [|lia].
      apply fill_continue_spec in Hlt. congruence.
  - destruct (sb_src st) as [|x s'] eqn:Es; injection Hs as <-; unfold SbPerm; simpl.
    + split.
      * rewrite app_nil_r in *. eapply perm_trans; [|exact Hp]. apply Permutation_app_head. apply perm_ok.
      * repeat split; try discriminate; auto.
    + assert (Hbl : length (sb_buf st) = b) by (destruct (Hl eq_refl) as [H|H]; [exact H|discriminate]).
      assert (Hi : pick (sb_j st) (length (sb_buf st)) < length (sb_buf st)) by (apply pick_lt; lia).
      split.
      * eapply perm_trans; [|exact Hp]. rewrite <- app_assoc. apply Permutation_app_head. simpl.
        eapply perm_trans; [|apply Permutation_middle].
        change (Permutation ((nth (pick (sb_j st) (length (sb_buf st))) (sb_buf st) x :: replace (sb_buf st) (pick (sb_j st) (length (sb_buf st))) x) ++ s') ((x :: sb_buf st) ++ s')).
        apply Permutation_app_tail. apply perm_replace. exact Hi.
      * repeat split; try discriminate. intros _. left. rewrite replace_length. exact Hbl.
  - destruct (Hdr r eq_refl) as (Hb0 & Hs0). rewrite Hb0, Hs0 in *. simpl in Hp.
    destruct r as [|y t]; injection Hs as <-; unfold SbPerm; simpl.
    + split; [exact Hp|]. repeat split; try discriminate; auto.
    + split; [rewrite <- app_assoc; simpl; exact Hp|]. repeat split; try discriminate; auto.
  - discriminate.
Qed.

(** Termination measure. *)
Definition sb_rank (p : @sb_phase A) : nat := match p with SbFill => 3 | SbLoop => 2 | SbDrain _ => 1 | SbDone => 0 end.
Definition sb_mu (st : sb_state A (list A)) : nat :=
  2 * length (sb_src st) + length (sb_buf st) + length (drain_of (sb_ph st)) + sb_rank (sb_ph st).

Lemma sb_mu_step (st st' : sb_state A (list A)) : sb_step lsrc pick perm b st = Some st' -> sb_mu st' < sb_mu st.
Proof.
  unfold sb_step, sb_mu, list_source. simpl. intros Hs. destruct (sb_ph st) as [| |r|] eqn:Ep; try rewrite Ep in Hs; simpl in Hs |- *.
  - destruct (fill_continue (length (sb_buf st)) b).
    + destruct (sb_src st) as [|x s'] eqn:Es; injection Hs as <-; simpl; rewrite ?app_length; simpl; lia.
    + injection Hs as <-. simpl. lia.
  - destruct (sb_src st) as [|x s'] eqn:Es; injection Hs as <-; simpl.
    + pose proof (Permutation_length (perm_ok (sb_buf st))). lia.
    + rewrite replace_length. lia.
  - destruct r as [|y t]; injection Hs as <-; simpl; lia.
  - discriminate.
Qed.

Lemma sb_run_done fuel : forall l st, SbPerm l st -> length (sb_buf st) <= b -> sb_mu st <= fuel ->
  let fin := sb_run lsrc pick perm b fuel st in sb_ph fin = SbDone /\ SbPerm l fin.
Proof.
  induction fuel as [|f IH]; intros l st Hp Hb Hmu; cbv zeta.
  - unfold sb_mu in Hmu. destruct (sb_ph st) eqn:Ep; simpl in *; try lia. split; [exact Ep|exact Hp].
  - simpl. destruct (sb_step lsrc pick perm b st) as [st'|] eqn:Es.
    + apply IH.
      * eapply sb_perm_step; eauto.
      * assert (HB : SbBound lsrc st -> True) by auto.
        (* the buffer never exceeds b: re-derive from the step *)
        unfold sb_step, list_source in Es. simpl in Es. destruct (sb_ph st) as [| |r|] eqn:Ep; simpl in *.
        -- destruct (fill_continue (length (sb_buf st)) b) eqn:Ef.
           ++ apply fill_continue_spec in Ef. destruct (sb_src st) as [|x s'] eqn:Esr; injection Es as <-; simpl; rewrite ?app_length; simpl; lia.
           ++ injection Es as <-. simpl. lia.
        -- destruct (sb_src st) as [|x s'] eqn:Esr; injection Es as <-; simpl; rewrite ?replace_length; lia.
        -- destruct r; injection Es as <-; simpl; lia.
        -- discriminate.
      * pose proof (sb_mu_step _ _ Es). lia.
    + unfold sb_step, list_source in Es. simpl in Es. destruct (sb_ph st) as [| |r|] eqn:Ep; simpl in *.
      * destruct (fill_continue _ _); [destruct (sb_src st)|]; discriminate.
      * destruct (sb_src st); discriminate.
      * destruct r; discriminate.
      * split; [reflexivity || exact Ep|exact Hp].
Qed.

(** One full pass through the shuffle buffer yields a permutation of the input. *)
Lemma shuffle_buffer_perm_lemma (l : list A) :
  let fin := sb_run lsrc pick perm b (2 * length l + 3) (sb_init lsrc l) in
  sb_ph fin = SbDone /\ Permutation (sb_out fin) l.
Proof.
  cbv zeta. destruct (sb_run_done (2 * length l + 3) l (sb_init lsrc l) (sb_perm_init l)) as (Hd & Hp & _ & Hdone & _).
  - simpl. lia.
  - unfold sb_mu, sb_init. simpl. lia.
  - destruct (sb_run lsrc pick perm b (2 * length l + 3) (sb_init lsrc l)) as [src0 buf0 ph0 pulled0 out0 j0].
    simpl in *. subst ph0. destruct (Hdone eq_refl) as (-> & ->). simpl in Hp. rewrite app_nil_r in Hp.
    split; [reflexivity | exact Hp].
Qed.
End SB.

(** ** round_robin *)
Section RR.
Variable A : Type.
Variable pick : nat -> nat -> nat.
Variable b : nat.
Hypothesis pick_lt : forall j len, 0 < len -> pick j len < len.

(** Bounds that hold for any source of inner iterables (finite or endless). *)
Section AnySource.
Variable src : @source (list A).
Definition RrBound (st : rr_state A (s_state src)) : Prop :=
  length (rr_buf st) <= b /\ length (rr_out st) <= rr_j st /\
  rr_opened st + length (rr_out st) <= length (rr_buf st) + rr_j st.

Lemma rr_bound_init s0 : RrBound (rr_init src s0).
Proof. unfold RrBound, rr_init; simpl. lia. Qed.

Lemma rr_bound_step st st' : RrBound st -> rr_step src pick b st = Some st' -> RrBound st'.
Proof.
  intros (H1 & H2 & H3) Hs. unfold rr_step in Hs.
  destruct (rr_done st); [discriminate|]. destruct (rr_filling st).
  - destruct (fill_continue (length (rr_buf st)) b) eqn:Ef.
    + apply fill_continue_spec in Ef. destruct (s_next src (rr_src st)) as [[l s']|]; injection Hs as <-;
        unfold RrBound; simpl; rewrite ?app_length; simpl; lia.
    + injection Hs as <-. unfold RrBound; simpl; lia.
  - destruct (rr_buf st) as [|h r] eqn:Eb.
    + injection Hs as <-. unfold RrBound; simpl in *; lia.
    + rewrite <- Eb in *. assert (Hne : 0 < length (rr_buf st)) by (rewrite Eb; simpl; lia).
      destruct (nth (pick (rr_j st) (length (rr_buf st))) (rr_buf st) []) as [|x t].
      * destruct (s_next src (rr_src st)) as [[l s']|]; injection Hs as <-; unfold RrBound; simpl;
          rewrite ?replace_length, ?removelast_len, ?replace_length; lia.
      * injection Hs as <-. unfold RrBound; simpl. rewrite replace_length, app_length. simpl. lia.
Qed.

Lemma rr_bound_run fuel st : RrBound st -> RrBound (rr_run src pick b fuel st).
Proof.
  revert st; induction fuel as [|f IH]; intros st H; simpl; [exact H|].
  destruct (rr_step src pick b st) as [st'|] eqn:E; [apply IH; eapply rr_bound_step; eauto | exact H].
Qed.
End AnySource.

(** Exactly-once on a finite list of finite inner lists. *)
Notation lsrc := (@list_source (list A)).
Hypothesis b_pos : 1 <= b.

Definition RrPerm (ls : list (list A)) (st : rr_state A (list (list A))) : Prop :=
  Permutation (rr_out st ++ concat (rr_buf st) ++ concat (rr_src st)) (concat ls) /\
  length (rr_buf st) <= b /\
  (rr_filling st = false -> length (rr_buf st) = b \/ rr_src st = []) /\
  (rr_done st = true -> rr_buf st = [] /\ rr_src st = []).

Lemma rr_perm_init ls : RrPerm ls (rr_init lsrc ls).
Proof. unfold RrPerm, rr_init; simpl. repeat split; try discriminate; try lia. reflexivity. Qed.

Definition rr_mu (st : rr_state A (list (list A))) : nat :=
  length (concat (rr_buf st)) + length (concat (rr_src st)) + 3 * length (rr_src st) + 2 * length (rr_buf st)
  + (if rr_filling st then 1 else 0) + (if rr_done st then 0 else 1).

Lemma rr_step_facts ls (st st' : rr_state A (list (list A))) :
  RrPerm ls st -> rr_step lsrc pick b st = Some st' -> RrPerm ls st' /\ rr_mu st' < rr_mu st.
Proof.
  intros (Hp & Hb & Hf & Hd) Hs. unfold rr_step, list_source in Hs. simpl in Hs. unfold rr_mu.
  destruct (rr_done st) eqn:Ed; [discriminate|]. destruct (rr_filling st) eqn:Efl.
  - destruct (fill_continue (length (rr_buf st)) b) eqn:Ef.
    + apply fill_continue_spec in Ef.
      destruct (rr_src st) as [|l s'] eqn:Es; injection Hs as <-; unfold RrPerm; simpl.
      * split; [|lia]. split; [exact Hp|]. repeat split; try discriminate; auto.
      * split.
        -- split; [|repeat split; try discriminate; rewrite app_length; simpl; lia].
           rewrite concat_app. simpl. rewrite app_nil_r, <- !app_assoc. simpl in Hp. exact Hp.
        -- rewrite concat_app. simpl. rewrite app_nil_r. repeat rewrite app_length. simpl. lia.
    + injection Hs as <-. unfold RrPerm; simpl. split; [|lia]. split; [exact Hp|]. repeat split; try discriminate; auto.
      intros _. left. destruct (Nat.lt_ge_cases (length (rr_buf st)) b) as [Hlt|Hge]; [|lia].
      apply fill_continue_spec in Hlt. congruence.
  - destruct (rr_buf st) as [|h r] eqn:Eb.
    + injection Hs as <-. unfold RrPerm; simpl. split; [|lia].
      assert (Hsrc : rr_src st = []) by (destruct (Hf eq_refl) as [H|H]; [simpl in H; lia | exact H]).
      rewrite Hsrc in *. split; [exact Hp|]. repeat split; try discriminate; auto; lia.
    + rewrite <- Eb in *. assert (Hne : 0 < length (rr_buf st)) by (rewrite Eb; simpl; lia).
      pose proof (pick_lt (rr_j st) _ Hne) as Hpos. set (pos := pick (rr_j st) (length (rr_buf st))) in *.
      destruct (nth pos (rr_buf st) []) as [|x t] eqn:En.
      * destruct (rr_src st) as [|l s'] eqn:Es; injection Hs as <-; unfold RrPerm; simpl.
        -- (* move the last iterator into the exhausted slot *)
           pose proof (concat_move_last A (rr_buf st) pos Hpos En) as Hm.
           split.
           ++ split; [|repeat split; try discriminate; auto; rewrite ?removelast_len, ?replace_length; lia].
              eapply perm_trans; [|exact Hp]. apply Permutation_app_head. apply Permutation_app_tail. exact Hm.
           ++ rewrite removelast_len, replace_length. pose proof (Permutation_length Hm). simpl. lia.
        -- pose proof (concat_replace_nil A (rr_buf st) pos l Hpos En) as Hr.
           split.
           ++ split; [|repeat split; try discriminate; rewrite ?replace_length; auto;
                       intros _; destruct (Hf eq_refl) as [H|H]; [left; exact H | discriminate]].
              eapply perm_trans; [|exact Hp]. apply Permutation_app_head. simpl.
              eapply perm_trans; [apply Permutation_app_tail; exact Hr|]. rewrite <- app_assoc.
              eapply perm_trans; [apply Permutation_app_comm|]. rewrite <- !app_assoc.
              apply Permutation_app_head. apply Permutation_app_comm.
           ++ rewrite replace_length. pose proof (Permutation_length Hr) as HL. rewrite app_length in HL.
              simpl. rewrite app_length. lia.
      * injection Hs as <-. unfold RrPerm; simpl.
        pose proof (concat_replace_cons A (rr_buf st) pos x t Hpos En) as Hr.
        split.
        -- split; [|repeat split; try discriminate; rewrite ?replace_length; auto].
           eapply perm_trans; [|exact Hp]. rewrite <- app_assoc. apply Permutation_app_head. simpl.
           change (Permutation ((x :: concat (replace (rr_buf st) pos t)) ++ concat (rr_src st)) (concat (rr_buf st) ++ concat (rr_src st))).
           apply Permutation_app_tail. exact Hr.
        -- rewrite replace_length. pose proof (Permutation_length Hr) as HL. simpl in HL. lia.
Qed.

Lemma rr_run_done fuel : forall ls (st : rr_state A (list (list A))), RrPerm ls st -> rr_mu st <= fuel ->
  let fin := rr_run lsrc pick b fuel st in rr_done fin = true /\ RrPerm ls fin.
Proof.
  induction fuel as [|f IH]; intros ls st Hp Hmu; cbv zeta.
  - unfold rr_mu in Hmu. destruct (rr_done st) eqn:Ed; [split; [exact Ed|exact Hp]|lia].
  - simpl. destruct (rr_step lsrc pick b st) as [st'|] eqn:Es.
    + destruct (rr_step_facts ls st st' Hp Es) as (Hp' & Hlt). apply IH; [exact Hp'|lia].
    + unfold rr_step in Es. destruct (rr_done st) eqn:Ed; [split; [first [reflexivity | exact Ed]|exact Hp]|].
      exfalso. unfold list_source in Es. simpl in Es. rewrite Ed in Es. destruct (rr_filling st) eqn:E1.
      * destruct (fill_continue (length (rr_buf st)) b) eqn:E2; [destruct (rr_src st) eqn:E3|]; discriminate.
      * destruct (rr_buf st) eqn:E2; [discriminate|]. rewrite <- E2 in Es.
        destruct (nth (pick (rr_j st) (length (rr_buf st))) (rr_buf st) []) eqn:E3; [destruct (rr_src st) eqn:E4|]; discriminate.
Qed.

(** One full pass of round robin yields a permutation of all elements of all inner iterables. *)
Lemma round_robin_perm_lemma (ls : list (list A)) :
  let fin := rr_run lsrc pick b (length (concat ls) + 3 * length ls + 2) (rr_init lsrc ls) in
  rr_done fin = true /\ Permutation (rr_out fin) (concat ls).
Proof.
  cbv zeta. destruct (rr_run_done (length (concat ls) + 3 * length ls + 2) ls (rr_init lsrc ls) (rr_perm_init ls)) as (Hd & Hp & _ & _ & Hdone).
  - unfold rr_mu, rr_init. simpl. lia.
  - destruct (rr_run lsrc pick b (length (concat ls) + 3 * length ls + 2) (rr_init lsrc ls)) as [s0 b0 f0 o0 out0 j0 d0].
    simpl in *. subst d0. destruct (Hdone eq_refl) as (-> & ->). simpl in Hp. rewrite app_nil_r in Hp.
    split; [reflexivity | exact Hp].
Qed.
End RR.

(** ** batches of the unshuffled concurrent reader *)
Lemma batches_concat_lemma {A} (T : nat) : 1 <= T -> forall fuel (l : list A), length l < fuel -> concat (batches fuel T l) = l.
Proof.
  intros HT. induction fuel as [|f IH]; intros l Hl; [lia|]. simpl. destruct l as [|x t]; [reflexivity|].
  change (concat (firstn T (x :: t) :: batches f T (skipn T (x :: t)))) with (firstn T (x :: t) ++ concat (batches f T (skipn T (x :: t)))).
  rewrite IH; [apply firstn_skipn|]. rewrite skipn_length. cbn [length] in *. lia.
Qed.

(** every batch holds at most [T] paths: at most [T] shards are being read ahead of the consumer *)
Lemma batches_bounded_lemma {A} (T fuel : nat) (l : list A) : Forall (fun bt => length bt <= T) (batches fuel T l).
Proof.
  revert l; induction fuel as [|f IH]; intros l; simpl; [constructor|]. destruct l as [|x t]; [constructor|].
  constructor; [rewrite firstn_length; lia | apply IH].
Qed.

(** ** Repeating streams: a shuffle buffer over an endless cycle only ever yields elements of the cycle. *)
Section Cycle.
Variable A : Type.
Variable pick : nat -> nat -> nat.
Variable perm : list A -> list A.
Variable b : nat.
Hypothesis perm_ok : forall l, Permutation (perm l) l.
Variable l : list A.
Variable d : A.
Hypothesis l_ne : l <> [].

Notation csrc := (cycle_source l d).
Definition AllIn (st : sb_state A nat) : Prop :=
  Forall (fun x => List.In x l) (sb_out st) /\ Forall (fun x => List.In x l) (sb_buf st) /\
  Forall (fun x => List.In x l) (drain_of A (sb_ph st)).

Lemma nth_mod_in i : List.In (nth (i mod length l) l d) l.
Proof. apply nth_In. apply Nat.mod_upper_bound. destruct l; [congruence|simpl; lia]. Qed.

Lemma Forall_replace (P : A -> Prop) (buf : list A) i x : Forall P buf -> P x -> Forall P (replace buf i x).
Proof.
  revert i; induction buf as [|h t IH]; intros [|i] Hb Hx; simpl; auto; inversion Hb; subst; constructor; auto.
Qed.

Lemma allin_step (st st' : sb_state A nat) : AllIn st -> sb_step csrc pick perm b st = Some st' -> AllIn st'.
Proof.
  intros (H1 & H2 & H3) Hs. unfold sb_step, cycle_source in Hs. simpl in Hs.
  destruct (sb_ph st) as [| |r|] eqn:Ep; simpl in H3, Hs.
  - destruct (fill_continue (length (sb_buf st)) b); injection Hs as <-; unfold AllIn; simpl; repeat split; auto.
    apply Forall_app; split; [exact H2|]. constructor; [apply nth_mod_in|constructor].
  - injection Hs as <-. unfold AllIn; simpl. repeat split; auto.
    + apply Forall_app; split; [exact H1|]. constructor; [|constructor].
      destruct (Nat.lt_ge_cases (pick (sb_j st) (length (sb_buf st))) (length (sb_buf st))) as [Hlt|Hge].
      * rewrite Forall_forall in H2. apply H2. apply nth_In. exact Hlt.
      * rewrite nth_overflow by exact Hge. apply nth_mod_in.
    + apply Forall_replace; [exact H2 | apply nth_mod_in].
  - destruct r as [|y t]; injection Hs as <-; unfold AllIn; simpl; repeat split; auto.
    + apply Forall_app; split; [exact H1|]. inversion H3; subst. constructor; [assumption|constructor].
    + inversion H3; assumption.
  - discriminate.
Qed.

Lemma cycle_shuffle_subset_lemma fuel :
  Forall (fun x => List.In x l) (sb_out (sb_run csrc pick perm b fuel (sb_init csrc 0))).
Proof.
  assert (Hgen : forall f (st : sb_state A nat), AllIn st -> AllIn (sb_run csrc pick perm b f st)).
  { induction f as [|f IH]; intros st H; simpl; [exact H|].
    destruct (sb_step csrc pick perm b st) as [st'|] eqn:E; [apply IH; eapply allin_step; eauto | exact H]. }
  apply (Hgen fuel (sb_init csrc 0)). unfold AllIn, sb_init; simpl. repeat split; constructor.
Qed.

(** The unshuffled repeating stream is periodic: the k-th path is the (k mod N)-th path. *)
Fixpoint take_src (k : nat) (i : nat) : list A :=
  match k with O => [] | S k' => nth (i mod length l) l d :: take_src k' (S i) end.
Lemma cycle_periodic_lemma k i : nth_error (take_src (S k + i) 0) (k) = Some (nth (k mod length l) l d).
Proof.
  assert (Hgen : forall k j m, nth_error (take_src (S k + m) j) k = Some (nth ((j + k) mod length l) l d)).
  { induction k0 as [|k0 IH]; intros j m.
    - simpl. rewrite Nat.add_0_r. reflexivity.
    - change (S (S k0) + m) with (S (S k0 + m)). cbn [take_src nth_error].
      rewrite IH. f_equal. f_equal. f_equal. lia. }
  rewrite Hgen. reflexivity.
Qed.
End Cycle.
