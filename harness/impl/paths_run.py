"""C17 implementation runner.
 pathlib: what pathlib and the pydantic validators / the filler constructor do with a path string
 audit:   crafted datasets with hostile metadata paths; every file opened must be inside the root
 filler:  hostile sub-directory arguments; nothing may be created outside the root
"""
import hashlib
import json
import os
import shutil
import sys
import tempfile
from pathlib import Path, PurePosixPath

EVENTS = []
ARMED = [False]


def hook(event, args):
    if not ARMED[0]:
        return
    if event == "open" and isinstance(args[0], (str, bytes, os.PathLike)):
        EVENTS.append(("open", os.path.abspath(os.fsdecode(args[0])), str(args[1])))     # absolute at the time of the call (the cwd may change later)
    elif event in ("os.mkdir", "os.rename", "os.remove"):
        EVENTS.append((event, os.path.abspath(os.fsdecode(args[0])), ""))


sys.addaudithook(hook)

import numpy as np  # noqa: E402
from sedpack.io import Dataset, Metadata, DatasetStructure, Attribute  # noqa: E402
from sedpack.io.dataset_filler import DatasetFiller, _DatasetFillerContext  # noqa: E402
from sedpack.io.file_info import FileInfo  # noqa: E402
from sedpack.io.shard_file_metadata import ShardsList, ShardListInfo  # noqa: E402
import sedpack.io.utils as U  # noqa: E402


def verdict(f):
    try:
        f()
        return "accept"
    except Exception as ex:  # noqa: BLE001
        return "reject:" + type(ex).__name__


def pathlib_mode(strings):
    root = PurePosixPath("/data/set")
    st = DatasetStructure(saved_data_description=[Attribute(name="a", dtype="int32", shape=(1,))])
    out = []
    for s in strings:
        p = PurePosixPath(s)
        j = root / p
        norm = os.path.normpath(str(j))
        if str(j).startswith("//") and not str(j).startswith("///"):
            norm = "/" + norm.lstrip("/") if not norm.startswith("//") else norm
        inside = norm == str(root) or norm.startswith(str(root) + "/")
        out.append({
            "abs": p.is_absolute(), "parts": list(p.parts), "name": p.name, "joined": list(j.parts), "inside": inside,
            "fileinfo": verdict(lambda: FileInfo.model_validate_json(json.dumps({"file_path": s}))),
            "shardslist": verdict(lambda: ShardsList.model_validate_json(json.dumps({"relative_path_self": s}))),
            "shardlistinfo": verdict(lambda: ShardListInfo.model_validate_json(json.dumps({"shard_list_info_file": {"file_path": s}}))),
            "filler": verdict(lambda: _DatasetFillerContext(Path("/data/set"), st, Path(s))),
        })
    return out


def mkds(root, n=5, sub=True):
    ds = Dataset.create(path=root, metadata=Metadata(description="p"), dataset_structure=DatasetStructure(
        saved_data_description=[Attribute(name="a", dtype="int32", shape=(1,))], shard_file_type="fb",
        compression="", examples_per_shard=2, hash_checksum_algorithms=("sha256",)))
    with ds.filler() as f:
        for i in range(n):
            f.write_example(values={"a": np.array([i], np.int32)}, split="train")
    if sub:
        with DatasetFiller(ds, relative_path_from_split=Path("sub")) as f:
            for i in range(3):
                f.write_example(values={"a": np.array([100 + i], np.int32)}, split="train")
    return ds


def sha(p):
    return hashlib.sha256(Path(p).read_bytes()).hexdigest()


def rehash(root):
    """The attacker controls all metadata: make every recorded checksum consistent again."""
    info = json.loads((root / "dataset_info.json").read_text())

    def fix_list(rel):
        f = root / rel
        if not f.is_file():
            return
        d = json.loads(f.read_text())
        for ch in d.get("children_shard_lists", []):
            cp = ch["shard_list_info_file"]["file_path"]
            fix_list(cp)
            t = (root / cp)
            try:
                if t.is_file():
                    ch["shard_list_info_file"]["hash_checksums"] = [sha(t)]
            except OSError:
                pass
        for sh in d.get("shard_files", []):
            for fi in sh["file_infos"]:
                t = root / fi["file_path"]
                try:
                    if t.is_file():
                        fi["hash_checksums"] = [sha(t)]
                except OSError:
                    pass
        f.write_text(json.dumps(d))
    for s, li in info["splits"].items():
        rel = li["shard_list_info_file"]["file_path"]
        fix_list(rel)
        t = root / rel
        try:
            if t.is_file():
                li["shard_list_info_file"]["hash_checksums"] = [sha(t)]
        except OSError:
            pass
    (root / "dataset_info.json").write_text(json.dumps(info))


def audit_mode(cases):
    out = []
    for c in cases:
        tmp = Path(tempfile.mkdtemp(prefix="verif_paths_")).resolve()
        try:
            root = tmp / "data"
            mkds(root)
            # things an attacker wants the library to read: valid files outside the root
            for outside in ("data_private", "elsewhere"):
                shutil.copytree(root, tmp / outside)
            shard_rel = json.loads((root / "train/shards_list.json").read_text())["shard_files"][0]["file_infos"][0]["file_path"]
            hostile = c["path"].replace("@TMP@", str(tmp)).replace("@SHARD@", shard_rel).replace("@SHARDNAME@", Path(shard_rel).name)
            site = c["site"]
            if site == "shard":
                f = root / "train/shards_list.json"
                d = json.loads(f.read_text())
                d["shard_files"][0]["file_infos"][0]["file_path"] = hostile
                f.write_text(json.dumps(d))
            elif site == "child":
                f = root / "train/shards_list.json"
                d = json.loads(f.read_text())
                d["children_shard_lists"][0]["shard_list_info_file"]["file_path"] = hostile
                f.write_text(json.dumps(d))
            elif site == "split":
                f = root / "dataset_info.json"
                d = json.loads(f.read_text())
                d["splits"]["train"]["shard_list_info_file"]["file_path"] = hostile
                f.write_text(json.dumps(d))
            elif site == "self":
                f = root / "train/shards_list.json"
                d = json.loads(f.read_text())
                d["relative_path_self"] = hostile
                f.write_text(json.dumps(d))
            rehash(root)
            if site == "relative_root":
                shutil.copytree(tmp / "elsewhere", tmp / "decoy" / "data")
            EVENTS.clear()
            ARMED[0] = True
            stages = {}
            ds = None
            cwd0 = os.getcwd()
            try:
                if site == "relative_root":
                    # an untouched dataset opened through a RELATIVE root; the process then moves to a directory where the same relative
                    # path names another dataset, and only afterwards uses the handle
                    os.chdir(tmp)
                    ds = Dataset(Path("data"))
                    os.chdir(tmp / "decoy")
                else:
                    ds = Dataset(root)
                stages["open"] = "ok"
            except Exception as ex:  # noqa: BLE001
                stages["open"] = "raised:" + type(ex).__name__
            if ds is not None:
                for name, fn in (("check", lambda: ds.check(show_progressbar=False)),
                                 ("iterate", lambda: len(list(ds.as_numpy_iterator(split="train", repeat=False, shuffle=0)))),
                                 ("iterate_concurrent", lambda: len(list(ds.as_numpy_iterator_concurrent(split="train", repeat=False, shuffle=0, file_parallelism=2)))),
                                 ("paths", lambda: len(ds.shard_paths_dataset(split="train"))),
                                 ("continue", lambda: cont(ds))):
                    try:
                        r = fn()
                        stages[name] = "ok" if r is None else f"ok:{r}"
                    except Exception as ex:  # noqa: BLE001
                        stages[name] = "raised:" + type(ex).__name__
            ARMED[0] = False
            os.chdir(cwd0)
            rr = str(root)
            outside = sorted({(e, os.path.realpath(p)) for (e, p, _m) in EVENTS
                              if os.path.realpath(p).startswith(str(tmp)) and not (os.path.realpath(p) + "/").startswith(rr + "/")})
            out.append({"stages": stages, "outside": [list(x) for x in outside][:6], "hostile": hostile})
        finally:
            ARMED[0] = False
            try:
                os.chdir(cwd0)
            except Exception:  # noqa: BLE001
                pass
            shutil.rmtree(tmp, ignore_errors=True)
    return out


def cont(ds):
    with ds.filler() as f:
        f.write_example(values={"a": np.array([7], np.int32)}, split="train")


def listing(tmp, root):
    res = set()
    for d, _dirs, files in os.walk(tmp):
        if (d + "/").startswith(str(root) + "/"):
            continue
        for x in files:
            res.add(os.path.join(d, x))
        res.add(d)
    return res


def filler_mode(cases):
    out = []
    for c in cases:
        tmp = Path(tempfile.mkdtemp(prefix="verif_pathsf_")).resolve()
        try:
            root = tmp / "data"
            ds = mkds(root, n=1, sub=False)
            (tmp / "elsewhere").mkdir()
            (tmp / "data_private").mkdir()
            sub = c["path"].replace("@TMP@", str(tmp))
            before = listing(tmp, root)
            EVENTS.clear()
            ARMED[0] = True
            try:
                with DatasetFiller(ds, relative_path_from_split=Path(sub)) as f:
                    f.write_example(values={"a": np.array([1], np.int32)}, split="test")
                res = "ok"
            except Exception as ex:  # noqa: BLE001
                res = "raised:" + type(ex).__name__
            ARMED[0] = False
            after = listing(tmp, root)
            out.append({"result": res, "created_outside": sorted(after - before)[:5], "sub": sub})
        finally:
            ARMED[0] = False
            shutil.rmtree(tmp, ignore_errors=True)
    return out


def main():
    req = json.load(sys.stdin)
    res = {}
    if "pathlib" in req:
        res["pathlib"] = pathlib_mode(req["pathlib"])
    if "audit" in req:
        res["audit"] = audit_mode(req["audit"])
    if "filler" in req:
        res["filler"] = filler_mode(req["filler"])
    print("@@RESULT@@" + json.dumps(res))


main()
