// Drives the real sedpack_rs::parallel_map::parallel_map with an instrumented plain `fn` and an
// instrumented source iterator.  Input on argv: trials "n,T,seed,drop_at,fail_at[,slow_at]" ...
// Output: one JSON line per trial: results, number of source pulls when each result was returned,
// outcome (done / dropped / panicked) and whether drop returned.
use std::sync::atomic::{AtomicUsize, AtomicI64, Ordering};
use std::sync::Mutex;

static PULLS: AtomicUsize = AtomicUsize::new(0);
static SEED: AtomicUsize = AtomicUsize::new(1);
static FAIL_AT: AtomicI64 = AtomicI64::new(-1);
static SLOW_AT: AtomicI64 = AtomicI64::new(-1);
static CALLS: Mutex<Vec<i64>> = Mutex::new(Vec::new());

fn work(x: i64) -> i64 {
    // a delay that depends on the item and the seed, so that threads finish in scrambled orders
    let s = SEED.load(Ordering::SeqCst) as u64;
    let h = (x as u64).wrapping_mul(6364136223846793005).wrapping_add(s.wrapping_mul(1442695040888963407)) >> 33;
    std::thread::sleep(std::time::Duration::from_micros(h % 3000));
    if x == SLOW_AT.load(Ordering::SeqCst) {
        // one task much slower than all others (a big shard, a slow disk)
        std::thread::sleep(std::time::Duration::from_millis(300));
    }
    CALLS.lock().unwrap().push(x);
    if x == FAIL_AT.load(Ordering::SeqCst) {
        panic!("instrumented failure on {x}");
    }
    x * 10 + 1
}

struct Src { i: i64, n: i64 }
impl Iterator for Src {
    type Item = i64;
    fn next(&mut self) -> Option<i64> {
        if self.i >= self.n { return None; }
        let v = self.i;
        self.i += 1;
        PULLS.fetch_add(1, Ordering::SeqCst);
        Some(v)
    }
}

fn main() {
    std::panic::set_hook(Box::new(|_| {}));
    for arg in std::env::args().skip(1) {
        let p: Vec<i64> = arg.split(',').map(|x| x.parse().unwrap()).collect();
        let (n, t, seed, drop_at, fail_at) = (p[0], p[1] as usize, p[2] as usize, p[3], p[4]);
        SLOW_AT.store(if p.len() > 5 { p[5] } else { -1 }, Ordering::SeqCst);
        PULLS.store(0, Ordering::SeqCst);
        SEED.store(seed, Ordering::SeqCst);
        FAIL_AT.store(fail_at, Ordering::SeqCst);
        CALLS.lock().unwrap().clear();
        let mut results: Vec<i64> = Vec::new();
        let mut pulls: Vec<usize> = Vec::new();
        let outcome = std::panic::catch_unwind(std::panic::AssertUnwindSafe(|| {
            let mut it = sedpack_rs::parallel_map::parallel_map(work, Src { i: 0, n }, t);
            let pulls0 = PULLS.load(Ordering::SeqCst);
            let mut out = "done";
            loop {
                if drop_at >= 0 && results.len() as i64 >= drop_at { out = "dropped"; break; }
                match it.next() {
                    Some(r) => { results.push(r); pulls.push(PULLS.load(Ordering::SeqCst)); }
                    None => break,
                }
            }
            drop(it);
            (out, pulls0)
        }));
        let (out, pulls0) = match outcome { Ok(x) => x, Err(_) => ("panicked", 0) };
        let mut calls = CALLS.lock().unwrap_or_else(|e| e.into_inner()).clone();
        calls.sort();
        println!("{{\"n\":{},\"T\":{},\"seed\":{},\"drop_at\":{},\"fail_at\":{},\"outcome\":\"{}\",\"results\":{:?},\"pulls\":{:?},\"pulls_initial\":{},\"calls\":{:?}}}",
                 n, t, seed, drop_at, fail_at, out, results, pulls, pulls0, calls);
    }
}
