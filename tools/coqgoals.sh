#!/bin/sh
# tools/coqgoals.sh <file.v> <line>: show the goals after the given line (truncates a copy, appends Show.)
f=$1; n=$2
head -n $n "$f" > /tmp/w/_dbg.v
printf '\nShow.\nAbort.\n' >> /tmp/w/_dbg.v
cd /verif/coq && timeout ${TMO:-120} coqc -q -Q . Sedpack /tmp/w/_dbg.v 2>&1 | head -${LINES_OUT:-80}
