(** C02/C08 over whole histories: after every history that completes, unshuffled iteration of a split (the depth-first shard list,
    each shard's stored examples) is a permutation of the contents of all shard files stored below that split — every stored shard
    exactly once, nothing else. *)
Require Import Sedpack.Model.Base Sedpack.Generated.GenMerge Sedpack.Generated.GenFiller Sedpack.Model.Filler Sedpack.Model.Meta.
Require Import Sedpack.Proofs.MergeBasics Sedpack.Proofs.MergeProofs Sedpack.Proofs.FillerProofs Sedpack.Proofs.HistoryProofs Sedpack.Proofs.ReachProofs Sedpack.Proofs.NoDupProofs Sedpack.Proofs.OrderProofs Sedpack.Proofs.CheckProofs.
From Coq Require Import Permutation.
Local Open Scope Z_scope.

(** the keys of the shard store are distinct (uuid names) *)
Definition KeysNoDup (fs : fsT) : Prop := NoDup (map fst (shards fs)).

Lemma lookup_shard_of_in d n v l : NoDup (map fst l) -> List.In ((d, n), v) l -> lookup_shard d n l = Some v.
Proof.
  induction l as [|[[d' n'] v'] t IH]; intros N H; [destruct H|]. cbn [map fst] in N. inversion N as [|x y Hx Hy]; subst. cbn [lookup_shard].
  destruct H as [E | H].
  - injection E as -> -> ->. rewrite dpath_eqb_refl, Nat.eqb_refl. reflexivity.
  - destruct (dpath_eqb d' d && Nat.eqb n' n) eqn:E; [|apply IH; assumption].
    exfalso. apply andb_true_iff in E as [E1 E2]. apply dpath_eqb_eq in E1. apply Nat.eqb_eq in E2. subst. apply Hx. apply in_map_iff. exists ((d, n), v). auto.
Qed.

Lemma add_shard_keys fs d sh h : FreshOK fs -> KeysNoDup fs -> KeysNoDup (add_shard fs d sh h).
Proof.
  intros Hfr N. unfold KeysNoDup. rewrite add_shard_shards. cbn [map fst]. constructor; [|exact N].
  intros Hin. apply in_map_iff in Hin as ([[d' n'] v] & E & Hin). cbn [fst] in E. injection E as -> ->.
  destruct (In_lookup_shard d (fresh fs) v (shards fs) Hin) as [v' Hv]. apply Hfr in Hv. lia.
Qed.

Section K.
Variable eps : nat.
Hypothesis Heps : (1 <= eps)%nat.

Lemma filler_keys fs sub ops : WFunder fs [] -> FreshOK fs -> KeysNoDup fs -> KeysNoDup (fst (filler_session fs sub eps ops)).
Proof.
  intros Hwf Hfr N. unfold filler_session. cbv zeta.
  set (st := run_ops eps ops). set (closes := f_closed st ++ exit_closes st).
  assert (Hsz : Forall (fun c => sh_n (snd c) = length (sh_ex (snd c))) closes).
  { pose proof (sizes_ok_lemma eps Heps ops) as H. unfold sizes_ok, session_closed in H. fold st in H. fold closes in H.
    rewrite forallb_forall in H. apply Forall_forall. intros c Hc. specialize (H c Hc). unfold size_ok in H.
    apply andb_true_iff in H as [_ H]. apply Nat.eqb_eq in H. exact H. }
  assert (A : forall cl fsa, Forall (fun c => sh_n (snd c) = length (sh_ex (snd c))) cl -> WFunder fsa [] -> FreshOK fsa -> KeysNoDup fsa ->
     KeysNoDup (fold_left (fun fs0 c => add_shard fs0 (split_code (fst c) :: sub) (snd c) (f_heap st)) cl fsa)).
  { induction cl as [|c t IH]; intros fsa Hs W F K; cbn [fold_left]; [exact K|]. apply Forall_cons_iff in Hs as [Hc Ht].
    apply IH; [exact Ht | apply add_shard_WF; assumption | apply add_shard_fresh; assumption | apply add_shard_keys; assumption]. }
  specialize (A closes fs Hsz Hwf Hfr N). set (fs1 := fold_left _ closes fs) in *.
  assert (B : forall tl fsa acc, shards (fst (fold_left (fun (a : fsT * list list_info) (c : nat) => let (fs2, li) := write_list (fst a) (load_or_create (fst a) (c :: sub)) in (fs2, snd a ++ [li])) tl (fsa, acc))) = shards fsa).
  { induction tl as [|c t IH]; intros fsa acc; cbn [fold_left fst snd]; [reflexivity|].
    pose proof (rewrite_shards fsa (c :: sub)) as E. destruct (write_list fsa (load_or_create fsa (c :: sub))) as [fs2 li]. cbn [fst] in *. rewrite IH. exact E. }
  specialize (B (touched closes []) fs1 []). destruct (fold_left _ (touched closes []) (fs1, [])) as [fs3 ups]. cbn [fst] in *.
  unfold KeysNoDup. cbn [shards]. rewrite B. exact A.
Qed.

Lemma session_keys st s st' : Inv st -> KeysNoDup (fst st) -> run_session eps st s = Ok st' -> KeysNoDup (fst st').
Proof.
  intros (Hwf & Hfr & _) N Hr. destruct st as [fs info]. cbn [fst snd] in *. unfold run_session in Hr.
  assert (Fin : forall fs1 ups, WFunder fs1 [] -> (forall u, List.In u ups -> (1 <= length (li_dir u))%nat) -> KeysNoDup fs1 ->
     match ups with [] => Ok (fs1, info) | _ => write_config fs1 info ups end = Ok st' -> KeysNoDup (fst st')).
  { intros fs1 ups W1 L K1 Hq. destruct ups as [|u0 ups']; [injection Hq as <-; exact K1|].
    destruct st' as [fs' info']. unfold write_config, group_split in Hq. fold WCstep in Hq. cbn [fst].
    destruct (wc_fold_same_files (group_by 0 (u0 :: ups')) fs1 info fs' info') as [_ E]; [apply group_by_ok; apply Forall_forall; exact L | exact W1 | exact Hq|].
    unfold KeysNoDup. rewrite E. exact K1. }
  destruct s as [sub ops | writers].
  - pose proof (filler_keys fs sub ops Hwf Hfr N) as K1.
    destruct (filler_phase eps Heps fs sub ops Hwf Hfr) as (W1 & _ & _ & _ & L1 & _).
    destruct (filler_session fs sub eps ops) as [fs1 ups]. cbn [fst snd] in *. exact (Fin fs1 ups W1 L1 K1 Hr).
  - set (fsm := {| lists := lists fs; shards := shards fs; ver := ver fs; fresh := (fresh fs + length writers)%nat; base := base fs |}) in *.
    assert (Wm : WFunder fsm []) by (intros d s0 h0 Hp E; apply (WFdoc_shards fs fsm); [reflexivity | exact (Hwf d s0 h0 Hp E)]).
    assert (Fm : FreshOK fsm) by (intros d n v E; cbn [fresh fsm]; pose proof (Hfr d n v E); lia).
    assert (M : forall ws fsa us k, WFunder fsa [] -> FreshOK fsa -> KeysNoDup fsa ->
      KeysNoDup (fst (fst (fold_left (fun (acc : fsT * list list_info * nat) (ops : list wop) =>
            let '(fsx, usx, kx) := acc in let (fsy, u) := filler_session fsx [kx] eps ops in (fsy, usx ++ u, S kx)) ws (fsa, us, k))))).
    { induction ws as [|ops t IH]; intros fsa us k W F K; cbn [fold_left fst]; [exact K|].
      pose proof (filler_keys fsa [k] ops W F K) as K1. destruct (filler_phase eps Heps fsa [k] ops W F) as (W1 & F1 & _).
      destruct (filler_session fsa [k] eps ops) as [fsb u1]. cbn [fst] in *. apply IH; assumption. }
    specialize (M writers fsm [] (fresh fs) Wm Fm N).
    destruct (multi_phase eps Heps writers fsm (fresh fs) Wm Fm) as (W1 & _ & _ & _ & L1 & _). cbv zeta in *.
    destruct (fold_left _ writers (fsm, [], fresh fs)) as [[fs1 ups] kk]. cbn [fst snd] in *. exact (Fin fs1 ups W1 L1 M Hr).
Qed.
End K.

Definition under (s : nat) (e : (dpath * nat) * (list nat * digest)) : bool :=
  match fst (fst e) with x :: _ => Nat.eqb x s | [] => false end.
Definition content_of (fs : fsT) (k : dpath * nat) : list nat :=
  match lookup_shard (fst k) (snd k) (shards fs) with Some (ex, _) => ex | None => [] end.

Lemma NoDup_map_filter {A B} (f : A -> B) (p : A -> bool) (l : list A) : NoDup (map f l) -> NoDup (map f (filter p l)).
Proof.
  induction l as [|a l IH]; intros N; [constructor|]. cbn [map] in N. inversion N as [|x y Hx Hy]; subst. cbn [filter].
  destruct (p a); [cbn [map]; constructor; [|apply IH; exact Hy] | apply IH; exact Hy].
  intros Hin. apply Hx. apply in_map_iff in Hin as (b & E & Hb). apply filter_In in Hb as [Hb _]. apply in_map_iff. exists b. auto.
Qed.

Lemma lookup_shard_In d n v l : lookup_shard d n l = Some v -> List.In ((d, n), v) l.
Proof.
  induction l as [|[[d' n'] v'] t IH]; cbn [lookup_shard]; [discriminate|].
  destruct (dpath_eqb d' d && Nat.eqb n' n) eqn:E; [|intros H; right; apply IH, H].
  apply andb_true_iff in E as [E1 E2]. apply dpath_eqb_eq in E1. apply Nat.eqb_eq in E2. subst. intros [= ->]. left. reflexivity.
Qed.

Section It.
Variable eps : nat.
Hypothesis Heps : (1 <= eps)%nat.

Lemma history_keys h st : run_history eps h = Ok st -> KeysNoDup (fst st).
Proof.
  unfold run_history.
  assert (G : forall h st0 st1, Inv st0 -> KeysNoDup (fst st0) -> fold_left (fun acc s => match acc with Err e => Err e | Ok stx => run_session eps stx s end) h (Ok st0) = Ok st1 -> KeysNoDup (fst st1)).
  { induction h0 as [|s t IH]; intros st0 st1 HI K Hf; cbn [fold_left] in Hf.
    - injection Hf as <-. exact K.
    - destruct (run_session eps st0 s) as [stx|e] eqn:Er.
      + apply (IH stx st1); [apply (run_session_inv eps Heps st0 s stx HI Er) | apply (session_keys eps Heps st0 s stx HI K Er) | exact Hf].
      + exfalso. clear -Hf. induction t as [|x t IHt]; cbn [fold_left] in Hf; [discriminate | auto]. }
  intros Hr. apply (G h (fs0, []) st HistoryProofs.inv_init); [constructor | exact Hr].
Qed.

(** unshuffled iteration of a split = the contents of the shard files stored below it, each exactly once *)
Theorem history_iterate_is_stored h fs info : run_history eps h = Ok (fs, info) ->
  forall s li, dget info s = Some li ->
  Permutation (iterate fs info s) (flat_map (fun e => fst (snd e)) (filter (under s) (shards fs))).
Proof.
  intros Hr s li Hg.
  pose proof (history_keys h (fs, info) Hr) as HK. cbn [fst] in HK.
  destruct (history_inv4 eps Heps h (fs, info) Hr) as (((Hwf & Hfr & Hex) & _) & Hdk & _ & _). cbn [fst snd] in *.
  destruct (Hex s li Hg (fun f => f)) as [Hdir _].
  unfold iterate. rewrite Hg, Hdir.
  set (L := dfs FUEL fs [s]). set (S := filter (under s) (shards fs)).
  assert (Wf1 : WFunder fs [s]) by (eapply WFunder_mono; [|exact Hwf]; reflexivity).
  (* the same keys on both sides *)
  assert (Pk : Permutation (map pair_of L) (map fst S)).
  { apply NoDup_Permutation.
    - apply (dfs_nodup FUEL fs [s] Wf1 Hdk).
    - apply NoDup_map_filter. exact HK.
    - intros [d n]. split.
      + intros Hin. apply in_map_iff in Hin as (sh & E & Hsh). unfold pair_of in E. injection E as <- <-.
        pose proof (dfs_dirs FUEL fs [s] sh Wf1 Hsh) as Hp. pose proof (CheckProofs.dfs_hashes FUEL fs [s] sh Wf1 Hsh) as Hh.
        destruct (lookup_shard (sh_dir sh) (sh_name sh) (shards fs)) as [v|] eqn:El; [|discriminate].
        apply lookup_shard_In in El. apply in_map_iff. exists ((sh_dir sh, sh_name sh), v). split; [reflexivity|].
        apply filter_In. split; [exact El|]. unfold under. cbn [fst]. apply prefix_single in Hp as [t ->]. apply Nat.eqb_refl.
      + intros Hin. apply in_map_iff in Hin as ([[d' n'] v] & E & He). cbn [fst] in E. injection E as -> ->.
        apply filter_In in He as [He Hu]. unfold under in Hu. cbn [fst] in Hu. destruct d as [|x t]; [discriminate|]. apply Nat.eqb_eq in Hu. subst x.
        pose proof (lookup_shard_of_in (s :: t) n v (shards fs) HK He) as El.
        destruct (history_all_shards_listed eps Heps h fs info Hr s t n v El) as (li' & sh & _ & _ & Hin & Hd & Hn).
        apply in_map_iff. exists sh. split; [unfold pair_of; rewrite Hd, Hn; reflexivity | exact Hin]. }
  (* the same contents *)
  assert (E1 : flat_map (examples_of fs) L = flat_map (content_of fs) (map pair_of L)).
  { rewrite flat_map_concat_map, (flat_map_concat_map (content_of fs)), map_map. reflexivity. }
  assert (E2 : flat_map (fun e => fst (snd e)) S = flat_map (content_of fs) (map fst S)).
  { rewrite flat_map_concat_map, (flat_map_concat_map (content_of fs)), map_map. f_equal. apply map_ext_in. intros [[d n] [ex hs]] He.
    apply filter_In in He as [He _]. unfold content_of. cbn [fst snd]. rewrite (lookup_shard_of_in d n (ex, hs) (shards fs) HK He). reflexivity. }
  rewrite E1, E2. apply Permutation_flat_map. exact Pk.
Qed.
End It.

(** ** what the sessions wrote *)
Section Wr.
Variable eps : nat.
Hypothesis Heps : (1 <= eps)%nat.

(** the stored example lists of the shards one filler closes for split [s], when the payload offset is [b] *)
Definition wrote_filler (b : nat) (ops : list wop) (s : split) : list nat :=
  flat_map (stored b) (closed_of s (session_closed eps ops)).
Fixpoint wrote_multi (b : nat) (ws : list (list wop)) (s : split) : list nat :=
  match ws with [] => [] | ops :: t => wrote_filler b ops s ++ wrote_multi (b + 100) t s end.
Definition wrote_session (b : nat) (x : session) (s : split) : list nat * nat :=
  match x with SFiller _ ops => (wrote_filler b ops s, (b + 100)%nat) | SMulti ws => (wrote_multi b ws s, (b + 100 * length ws)%nat) end.
Fixpoint wrote_history (b : nat) (h : list session) (s : split) : list nat :=
  match h with [] => [] | x :: t => fst (wrote_session b x s) ++ wrote_history (snd (wrote_session b x s)) t s end.

Definition stored_under (fs : fsT) (c : nat) : list nat := flat_map (fun e => fst (snd e)) (filter (under c) (shards fs)).

Lemma stored_under_cons fs fs' k v c : shards fs' = (k, v) :: shards fs ->
  stored_under fs' c = (if under c (k, v) then fst v else []) ++ stored_under fs c.
Proof. intros E. unfold stored_under. rewrite E. cbn [filter]. destruct (under c (k, v)); reflexivity. Qed.

Lemma filler_stored fs sub ops s : WFunder fs [] -> FreshOK fs ->
  Permutation (stored_under (fst (filler_session fs sub eps ops)) (split_code s)) (wrote_filler (base fs) ops s ++ stored_under fs (split_code s))
  /\ base (fst (filler_session fs sub eps ops)) = (base fs + 100)%nat.
Proof.
  intros Hwf Hfr. split; [|apply (filler_base eps)]. unfold filler_session. cbv zeta. unfold wrote_filler, session_closed.
  set (st := run_ops eps ops). set (closes := f_closed st ++ exit_closes st).
  assert (A : forall cl fsa, let fsb := fold_left (fun fs0 c => add_shard fs0 (split_code (fst c) :: sub) (snd c) (f_heap st)) cl fsa in
     base fsb = base fsa /\ Permutation (stored_under fsb (split_code s)) (flat_map (stored (base fsa)) (closed_of s cl) ++ stored_under fsa (split_code s))).
  { induction cl as [|c t IH]; intros fsa; cbn [fold_left]; [split; [reflexivity | apply Permutation_refl]|].
    destruct (IH (add_shard fsa (split_code (fst c) :: sub) (snd c) (f_heap st))) as [B P]. cbv zeta in *.
    split; [rewrite B; reflexivity|]. eapply Permutation_trans; [exact P|].
    rewrite (stored_under_cons fsa _ _ _ (split_code s) (add_shard_shards fsa (split_code (fst c) :: sub) (snd c) (f_heap st))).
    replace (base (add_shard fsa (split_code (fst c) :: sub) (snd c) (f_heap st))) with (base fsa) by reflexivity.
    unfold closed_of. cbn [filter]. unfold under. cbn [fst snd].
    destruct (split_eqb_spec (fst c) s) as [E|E].
    - rewrite E, Nat.eqb_refl. cbn [map flat_map]. rewrite <- app_assoc. apply Permutation_app_swap_app.
    - destruct (Nat.eqb_spec (split_code (fst c)) (split_code s)) as [E2|E2]; [exfalso; apply E; destruct (fst c), s; cbn in E2; congruence|]. cbn [app]. apply Permutation_refl. }
  destruct (A closes fs) as [B1 P1]. cbv zeta in *. set (fs1 := fold_left _ closes fs) in *.
  assert (Bq : forall tl fsa acc, shards (fst (fold_left (fun (a : fsT * list list_info) (c : nat) => let (fs2, li) := write_list (fst a) (load_or_create (fst a) (c :: sub)) in (fs2, snd a ++ [li])) tl (fsa, acc))) = shards fsa).
  { induction tl as [|c t IH]; intros fsa acc; cbn [fold_left fst snd]; [reflexivity|].
    pose proof (rewrite_shards fsa (c :: sub)) as E. destruct (write_list fsa (load_or_create fsa (c :: sub))) as [fs2 li]. cbn [fst] in *. rewrite IH. exact E. }
  specialize (Bq (touched closes []) fs1 []). destruct (fold_left _ (touched closes []) (fs1, [])) as [fs3 ups]. cbn [fst] in *.
  unfold stored_under at 1. cbn [shards]. rewrite Bq. exact P1.
Qed.
End Wr.

Lemma merge_base : forall fuel U c fs fs' li, merge fuel U c fs = Ok (fs', li) -> base fs' = base fs.
Proof.
  induction fuel as [|f IH]; intros U c fs fs' li Hm; [discriminate|].
  rewrite merge_S in Hm. destruct U as [|u0 U']; [discriminate|].
  destruct (negb (forallb _ _)); [discriminate|]. cbv zeta in Hm.
  destruct (negb (Nat.eqb _ _)); [discriminate|]. destruct (merge_asserts_single_update && _)%bool; [discriminate|].
  destruct (fold_left (Fstep f c) _ _) as [[fs3 merged]|e] eqn:Ef; [|discriminate].
  injection Hm as <- _. cbn [write_list fst base].
  assert (G : forall gs fsa done fsb m, fold_left (Fstep f c) gs (Ok (fsa, done)) = Ok (fsb, m) -> base fsb = base fsa).
  { induction gs as [|g gs IHg]; intros fsa done fsb m E; cbn [fold_left] in E.
    - injection E as <- _. reflexivity.
    - unfold Fstep at 2 in E. destruct (merge f (snd g) (S c) fsa) as [[fs2 info]|e] eqn:Em; [|rewrite fold_err in E; discriminate].
      rewrite (IHg _ _ _ _ E). apply (IH _ _ _ _ _ Em). }
  apply (G _ _ _ _ _ Ef).
Qed.

Lemma wc_base : forall gs fs1 i1 fs' info', fold_left WCstep gs (Ok (fs1, i1)) = Ok (fs', info') -> base fs' = base fs1.
Proof.
  induction gs as [|g gs IH]; intros fs1 i1 fs' info' Hf; cbn [fold_left] in Hf; [injection Hf as <- _; reflexivity|].
  unfold WCstep at 2 in Hf. destruct (merge FUEL (snd g) 1 fs1) as [[fs2 li]|e] eqn:Em; [|rewrite wc_err in Hf; discriminate].
  rewrite (IH _ _ _ _ Hf). apply (merge_base _ _ _ _ _ _ Em).
Qed.

Section Wr2.
Variable eps : nat.
Hypothesis Heps : (1 <= eps)%nat.

Lemma session_stored st x st' s : Inv st -> run_session eps st x = Ok st' ->
  Permutation (stored_under (fst st') (split_code s)) (fst (wrote_session eps (base (fst st)) x s) ++ stored_under (fst st) (split_code s))
  /\ base (fst st') = snd (wrote_session eps (base (fst st)) x s).
Proof.
  intros (Hwf & Hfr & _) Hr. destruct st as [fs info]. cbn [fst snd] in *. unfold run_session in Hr.
  assert (Fin : forall fs1 ups, WFunder fs1 [] -> (forall u, List.In u ups -> (1 <= length (li_dir u))%nat) ->
     match ups with [] => Ok (fs1, info) | _ => write_config fs1 info ups end = Ok st' -> shards (fst st') = shards fs1 /\ base (fst st') = base fs1).
  { intros fs1 ups W1 L Hq. destruct ups as [|u0 ups']; [injection Hq as <-; split; reflexivity|].
    destruct st' as [fs' info']. unfold write_config, group_split in Hq. fold WCstep in Hq. cbn [fst]. split.
    - apply (wc_fold_same_files (group_by 0 (u0 :: ups')) fs1 info fs' info'); [apply group_by_ok; apply Forall_forall; exact L | exact W1 | exact Hq].
    - apply (wc_base _ _ _ _ _ Hq). }
  destruct x as [sub ops | writers]; cbn [wrote_session fst snd].
  - destruct (filler_stored eps fs sub ops s Hwf Hfr) as [P B].
    destruct (filler_phase eps Heps fs sub ops Hwf Hfr) as (W1 & _ & _ & _ & L1 & _).
    destruct (filler_session fs sub eps ops) as [fs1 ups]. cbn [fst snd] in *.
    destruct (Fin fs1 ups W1 L1 Hr) as [Es Eb]. unfold stored_under at 1. rewrite Es. fold (stored_under fs1 (split_code s)). rewrite Eb. auto.
  - set (fsm := {| lists := lists fs; shards := shards fs; ver := ver fs; fresh := (fresh fs + length writers)%nat; base := base fs |}) in *.
    assert (Wm : WFunder fsm []) by (intros d s0 h0 Hp E; apply (WFdoc_shards fs fsm); [reflexivity | exact (Hwf d s0 h0 Hp E)]).
    assert (Fm : FreshOK fsm) by (intros d n v E; cbn [fresh fsm]; pose proof (Hfr d n v E); lia).
    assert (M : forall ws fsa us k, WFunder fsa [] -> FreshOK fsa ->
      let r := fold_left (fun (acc : fsT * list list_info * nat) (ops : list wop) =>
            let '(fsx, usx, kx) := acc in let (fsy, u) := filler_session fsx [kx] eps ops in (fsy, usx ++ u, S kx)) ws (fsa, us, k) in
      Permutation (stored_under (fst (fst r)) (split_code s)) (wrote_multi eps (base fsa) ws s ++ stored_under fsa (split_code s)) /\
      base (fst (fst r)) = (base fsa + 100 * length ws)%nat).
    { induction ws as [|ops t IH]; intros fsa us k W F; cbn [fold_left fst snd wrote_multi length]; [split; [apply Permutation_refl | lia]|].
      destruct (filler_stored eps fsa [k] ops s W F) as [P1 B1].
      destruct (filler_phase eps Heps fsa [k] ops W F) as (W1 & F1 & _).
      destruct (filler_session fsa [k] eps ops) as [fsb u1]. cbn [fst snd] in *.
      destruct (IH fsb (us ++ u1) (S k) W1 F1) as [P2 B2]. cbv zeta in *. split; [|rewrite B2, B1; lia].
      eapply Permutation_trans; [exact P2|]. rewrite B1. rewrite <- app_assoc.
      eapply Permutation_trans; [apply Permutation_app_head; exact P1|]. rewrite !app_assoc. apply Permutation_app_tail. apply Permutation_app_comm. }
    destruct (M writers fsm [] (fresh fs) Wm Fm) as [P B]. cbv zeta in *.
    destruct (multi_phase eps Heps writers fsm (fresh fs) Wm Fm) as (W1 & _ & _ & _ & L1 & _). cbv zeta in *.
    destruct (fold_left _ writers (fsm, [], fresh fs)) as [[fs1 ups] kk]. cbn [fst snd] in *.
    destruct (Fin fs1 ups W1 L1 Hr) as [Es Eb]. unfold stored_under at 1. rewrite Es. fold (stored_under fs1 (split_code s)). rewrite Eb. split; [exact P | exact B].
Qed.

Lemma history_stored_is_written : forall h st st' s, Inv st ->
  fold_left (fun acc x => match acc with Err e => Err e | Ok st0 => run_session eps st0 x end) h (Ok st) = Ok st' ->
  Permutation (stored_under (fst st') (split_code s)) (wrote_history eps (base (fst st)) h s ++ stored_under (fst st) (split_code s)).
Proof.
  induction h as [|x t IH]; intros st st' s HI Hf; cbn [fold_left wrote_history] in *; [injection Hf as <-; apply Permutation_refl|].
  destruct (run_session eps st x) as [st1|e] eqn:Er; [|exfalso; clear -Hf; induction t as [|y t IHt]; cbn [fold_left] in Hf; [discriminate | auto]].
  destruct (session_stored st x st1 s HI Er) as [P1 B1].
  pose proof (IH st1 st' s (run_session_inv eps Heps st x st1 HI Er) Hf) as P2. rewrite B1 in P2.
  eapply Permutation_trans; [exact P2|]. rewrite <- app_assoc.
  eapply Permutation_trans; [apply Permutation_app_head; exact P1|]. rewrite !app_assoc. apply Permutation_app_tail. apply Permutation_app_comm.
Qed.

(** C02 / C08 in one sentence, for every history of the session model: unshuffled iteration of a split yields exactly the examples
    the sessions stored for it — every shard every session closed for that split, each once (payload offsets identify the session). *)
Theorem history_iterate_is_written h fs info : run_history eps h = Ok (fs, info) ->
  forall s, Permutation (iterate fs info (split_code s)) (wrote_history eps 0 h s).
Proof.
  intros Hr s. pose proof (history_stored_is_written h (fs0, []) (fs, info) s HistoryProofs.inv_init Hr) as P. cbn [fst base fs0] in P.
  unfold stored_under at 2 in P. cbn [shards fs0 filter flat_map] in P. rewrite app_nil_r in P.
  eapply Permutation_trans; [|exact P].
  destruct (dget info (split_code s)) as [li|] eqn:Eg; [apply (history_iterate_is_stored eps Heps h fs info Hr (split_code s) li Eg)|].
  (* a split the description does not know holds nothing *)
  unfold iterate. rewrite Eg. unfold stored_under.
  pose proof (history_keys eps Heps h (fs, info) Hr) as HK. cbn [fst] in HK.
  assert (E : filter (under (split_code s)) (shards fs) = []).
  { destruct (filter (under (split_code s)) (shards fs)) as [|[[d n] v] t] eqn:Ef; [reflexivity|]. exfalso.
    assert (Hin : List.In ((d, n), v) (filter (under (split_code s)) (shards fs))) by (rewrite Ef; left; reflexivity).
    apply filter_In in Hin as [Hin Hu]. unfold under in Hu. cbn [fst] in Hu. destruct d as [|x d']; [discriminate|]. apply Nat.eqb_eq in Hu. subst x.
    destruct (history_all_shards_listed eps Heps h fs info Hr (split_code s) d' n v (lookup_shard_of_in _ _ _ _ HK Hin)) as (li & _ & Hg & _). congruence. }
  rewrite E. apply Permutation_refl.
Qed.
End Wr2.

Require Import Sedpack.Proofs.FillerExact.
(** what one filler stores for a split is exactly its accepted writes to that split, in caller order (C03), plus the payload offset *)
Lemma wrote_filler_accepted eps : (1 <= eps)%nat -> forall b ops s, wrote_filler eps b ops s = map (Nat.add b) (accepted s ops 0).
Proof.
  intros Heps b ops s. rewrite <- (filler_exact_lemma eps Heps ops s). unfold wrote_filler, recorded, stored.
  induction (closed_of s (session_closed eps ops)) as [|sh t IH]; cbn [flat_map map]; [reflexivity|]. rewrite map_app, IH. reflexivity.
Qed.
