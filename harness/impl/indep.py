"""Decoding a shard file WITHOUT sedpack's shard iterators (the references the checks compare with must not share code with the readers
under test): FlatBuffers through the generated accessor classes, npz through numpy, TFRecord through tf.data + tf.io directly; the
decompressors are the standard libraries'.  The test attribute is "a": int32, shape (1,)."""
import bz2
import gzip
import lzma

import numpy as np


def _decompress(comp, data):
    if comp == "":
        return data
    if comp in ("GZIP", "ZLIB"):
        return gzip.decompress(data)
    if comp == "BZ2":
        return bz2.decompress(data)
    if comp == "LZMA":
        return lzma.decompress(data)
    if comp == "LZ4":
        import lz4.frame
        return lz4.frame.decompress(data)
    if comp == "ZSTD":
        import zstandard
        return zstandard.decompress(data)
    raise ValueError(comp)


def decode_indep(ds, path):
    st = ds.dataset_structure
    ft, comp = st.shard_file_type, st.compression
    if ft == "fb":
        from sedpack.io.flatbuffer.shardfile import Shard as FbShard
        raw = _decompress(comp, open(path, "rb").read())
        shard = FbShard.Shard.GetRootAs(raw, 0)
        out = []
        for ei in range(shard.ExamplesLength()):
            b = bytes(shard.Examples(ei).Attributes(0).AttributeBytesAsNumpy())
            out.append(int(np.frombuffer(b, dtype="<i4")[0]))
        return out
    if ft == "npz":
        with np.load(path) as z:
            return [int(np.asarray(x).reshape(-1)[0]) for x in z["a"]]
    import tensorflow as tf
    out = []
    for rec in tf.data.TFRecordDataset(str(path), compression_type={"": "", "GZIP": "GZIP", "ZLIB": "ZLIB"}[comp]):
        ex = tf.train.Example()
        ex.ParseFromString(rec.numpy())
        out.append(int(ex.features.feature["a"].int64_list.value[0]))
    return out
