(** C06: the file-system effects of a writing session, crash states as prefixes of the effect
    trace, and the publication discipline that makes every prefix consistent.

    A path is classified as metadata (a [shards_list.json] or [dataset_info.json]), shard, or
    temporary (the [update_..._of_...] sibling written by [safe_update_file]).  A metadata document
    is abstracted to what it references: shard files with their recorded digest, and child lists. *)
Require Import Sedpack.Model.Base.

Definition path := nat.                        (* paths are interned by the harness *)
Inductive kind := KMeta | KShard | KTmp.
Record doc := { d_shards : list (path * nat); d_children : list path }.
Inductive body := BShard (digest : nat) | BDoc (d : doc).
Record file := { closed : bool; fbody : body }.
Definition disk := path -> option file.

Inductive eff :=
| Create (p : path) (b : body)     (* open for writing (truncating); [b]: what the file will hold once complete *)
| Write (p : path)                 (* one write call (possibly torn when the process dies inside it) *)
| Close (p : path)
| Rename (p q : path)
| Mkdir
| Remove (p : path).

Section K.
Variable kind_of : path -> kind.

Definition upd (d : disk) (p : path) (v : option file) : disk := fun q => if q =? p then v else d q.

Definition apply_eff (d : disk) (e : eff) : disk :=
  match e with
  | Create p b => upd d p (Some {| closed := false; fbody := b |})
  | Write _ => d
  | Close p => match d p with Some f => upd d p (Some {| closed := true; fbody := fbody f |}) | None => d end
  | Rename p q => upd (upd d q (d p)) p None
  | Mkdir => d
  | Remove p => upd d p None
  end.
Definition apply_all (l : list eff) (d : disk) : disk := fold_left apply_eff l d.

Definition is_kind (k : kind) (p : path) : bool :=
  match kind_of p, k with KMeta, KMeta | KShard, KShard | KTmp, KTmp => true | _, _ => false end.

Definition shard_ok (d : disk) (r : path * nat) : bool :=
  is_kind KShard (fst r) &&
  match d (fst r) with Some {| closed := true; fbody := BShard h |} => h =? snd r | _ => false end.
Definition child_ok (d : disk) (c : path) : bool :=
  is_kind KMeta c && match d c with Some {| closed := true; fbody := BDoc _ |} => true | _ => false end.
Definition doc_ok (d : disk) (dc : doc) : bool := forallb (shard_ok d) (d_shards dc) && forallb (child_ok d) (d_children dc).

Definition mem_ref (r : path * nat) (l : list (path * nat)) : bool := existsb (fun x => (fst x =? fst r) && (snd x =? snd r)) l.
Definition extends (old new : doc) : bool :=
  forallb (fun r => mem_ref r (d_shards new)) (d_shards old) && forallb (fun c => existsb (Nat.eqb c) (d_children new)) (d_children old).

(** The publication discipline, checked effect by effect against the running state. *)
Definition step_ok (d : disk) (e : eff) : bool :=
  match e with
  | Create p _ => negb (is_kind KMeta p) && match d p with None => true | Some _ => false end
  | Write p | Close p => negb (is_kind KMeta p) && match d p with Some {| closed := false |} => true | _ => false end
  | Rename p q =>
      is_kind KTmp p && is_kind KMeta q &&
      match d p with
      | Some {| closed := true; fbody := BDoc dn |} =>
          doc_ok d dn && match d q with Some {| fbody := BDoc dold |} => extends dold dn | Some _ => false | None => true end
      | _ => false
      end
  | Mkdir => true
  | Remove p => is_kind KTmp p
  end.
Fixpoint discipline (d : disk) (tr : list eff) : bool :=
  match tr with [] => true | e :: t => step_ok d e && discipline (apply_eff d e) t end.

(** A consistent disk: every metadata path holds a complete document all of whose references
    resolve — shards to complete files with the recorded digest, children to complete documents. *)
Definition Consistent (d : disk) : Prop :=
  forall q f, kind_of q = KMeta -> d q = Some f ->
    closed f = true /\ exists dc, fbody f = BDoc dc /\ doc_ok d dc = true.
End K.
