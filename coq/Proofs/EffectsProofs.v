(** C09: effects of writers with disjoint footprints commute, so every interleaving of the workers
    leaves the file system the sequential run leaves. *)
Require Import Sedpack.Model.Base Sedpack.Model.Effects.

Section P.
Variable path : Type.
Variable peqb : path -> path -> bool.
Hypothesis peqb_refl : forall p, peqb p p = true.
Hypothesis peqb_eq : forall p q, peqb p q = true -> p = q.
Variable content : Type.
Notation eff := (eff path content).
Notation fsys := (fsys path content).
Notation apply_eff := (apply_eff path peqb content).
Notation apply_all := (apply_all path peqb content).
Notation fs_eq := (fs_eq path content).
Notation independent := (independent path peqb content).

Lemma fs_eq_refl a : fs_eq a a. Proof. split; reflexivity. Qed.
Lemma fs_eq_trans a b c : fs_eq a b -> fs_eq b c -> fs_eq a c.
Proof. intros [H1 H2] [H3 H4]. split; intros q; [rewrite H1; apply H3 | rewrite H2; apply H4]. Qed.
Lemma fs_eq_sym a b : fs_eq a b -> fs_eq b a.
Proof. intros [H1 H2]. split; intros q; symmetry; auto. Qed.

Lemma apply_eff_ext a b e : fs_eq a b -> fs_eq (apply_eff a e) (apply_eff b e).
Proof. intros [H1 H2]. destruct e; split; intros q; simpl; rewrite ?H1, ?H2; reflexivity. Qed.
Lemma apply_all_ext l : forall a b, fs_eq a b -> fs_eq (apply_all l a) (apply_all l b).
Proof. induction l as [|e l IH]; intros a b H; simpl; [exact H|]. apply IH, apply_eff_ext, H. Qed.

Lemma swap_independent fs e1 e2 : independent e1 e2 -> fs_eq (apply_eff (apply_eff fs e1) e2) (apply_eff (apply_eff fs e2) e1).
Proof.
  unfold independent. destruct e1 as [d1|p1 c1|p1], e2 as [d2|p2 c2|p2]; simpl; intros H; split; intros q; simpl; try reflexivity.
  all: try (destruct (peqb q d2), (peqb q d1); reflexivity).
  all: destruct H as [H1 H2]; destruct (peqb q p2) eqn:E2, (peqb q p1) eqn:E1; try reflexivity;
       apply peqb_eq in E2; apply peqb_eq in E1; subst; rewrite peqb_refl in H1; discriminate.
Qed.

(** an effect independent of a whole prefix can be moved in front of it *)
Lemma move_front l1 : forall e l2 fs, Forall (fun x => independent x e) l1 ->
  fs_eq (apply_all (l1 ++ e :: l2) fs) (apply_all (e :: l1 ++ l2) fs).
Proof.
  induction l1 as [|x l1 IH]; intros e l2 fs Hind; simpl; [apply fs_eq_refl|].
  inversion Hind as [|y z Hx Hrest]; subst.
  eapply fs_eq_trans; [apply (IH e l2 (apply_eff fs x) Hrest)|]. simpl.
  apply apply_all_ext. apply swap_independent. exact Hx.
Qed.

(** writers are pairwise independent *)
Definition writers_independent (ws : list (list eff)) : Prop :=
  forall i j wi wj, i <> j -> nth_error ws i = Some wi -> nth_error ws j = Some wj ->
    forall a b, List.In a wi -> List.In b wj -> independent a b.

Lemma independent_sym a b : independent a b -> independent b a.
Proof. unfold independent. destruct (target path content a), (target path content b); tauto. Qed.

Lemma concat_split (ws : list (list eff)) i e rest : nth_error ws i = Some (e :: rest) ->
  concat ws = concat (firstn i ws) ++ e :: rest ++ concat (skipn (S i) ws) /\
  concat (firstn i ws ++ rest :: skipn (S i) ws) = concat (firstn i ws) ++ rest ++ concat (skipn (S i) ws).
Proof.
  revert i; induction ws as [|w ws IH]; intros [|i] H; simpl in *; try discriminate.
  - injection H as ->. split; reflexivity.
  - destruct (IH i H) as (H1 & H2). rewrite H1, H2, <- !app_assoc. split; reflexivity.
Qed.

Lemma nth_error_replace {X} (ws : list X) i x j : i < length ws ->
  nth_error (firstn i ws ++ x :: skipn (S i) ws) j = if Nat.eqb j i then Some x else nth_error ws j.
Proof.
  revert i j; induction ws as [|w ws IH]; intros [|i] [|j] Hl; simpl in *; try lia; auto.
  apply IH. lia.
Qed.

Theorem interleaving_irrelevant_lemma ws l : Interleaving path content ws l -> writers_independent ws ->
  forall fs, fs_eq (apply_all l fs) (apply_all (concat ws) fs).
Proof.
  induction 1 as [ws Hall | ws i e rest l Hn Hil IH]; intros Hind fs.
  - assert (Hc : concat ws = []).
    { clear Hind. induction Hall as [|w ws0 Hw _ IHa]; simpl; [reflexivity|]. rewrite Hw, IHa. reflexivity. }
    rewrite Hc. apply fs_eq_refl.
  - destruct (concat_split ws i e rest Hn) as (Hc & Hc').
    assert (Hlen : i < length ws) by (apply nth_error_Some; congruence).
    (* the remaining writers are still independent *)
    assert (Hind' : writers_independent (firstn i ws ++ rest :: skipn (S i) ws)).
    { intros a b wa wb Hab Ha Hb x y Hx Hy. rewrite nth_error_replace in Ha, Hb by exact Hlen.
      destruct (Nat.eqb_spec a i) as [->|Hai], (Nat.eqb_spec b i) as [->|Hbi]; try congruence.
      - injection Ha as <-. apply (Hind i b (e :: rest) wb Hab Hn Hb); [right; exact Hx | exact Hy].
      - injection Hb as <-. apply (Hind a i wa (e :: rest) Hab Ha Hn); [exact Hx | right; exact Hy].
      - apply (Hind a b wa wb Hab Ha Hb); assumption. }
    simpl. eapply fs_eq_trans; [apply (IH Hind' (apply_eff fs e))|]. rewrite Hc', Hc.
    apply fs_eq_sym. change (apply_all (concat (firstn i ws) ++ rest ++ concat (skipn (S i) ws)) (apply_eff fs e))
      with (apply_all (e :: concat (firstn i ws) ++ rest ++ concat (skipn (S i) ws)) fs).
    apply move_front.
    (* e is independent of everything earlier writers do *)
    apply Forall_forall. intros x Hx. apply in_concat in Hx. destruct Hx as (w & Hw & Hxw).
    apply In_nth_error in Hw. destruct Hw as (j & Hj).
    assert (Hji : j < i).
    { assert (j < length (firstn i ws)) by (apply nth_error_Some; congruence). rewrite firstn_length in H. lia. }
    assert (Hj' : nth_error ws j = Some w).
    { rewrite <- (firstn_skipn i ws). rewrite nth_error_app1; [exact Hj | rewrite firstn_length; lia]. }
    apply (Hind j i w (e :: rest)); [lia | exact Hj' | exact Hn | exact Hxw | left; reflexivity].
Qed.
End P.
