"""Datasets and iteration requests for the reading-side properties (C02, C03, C07, C12, C14, C19)."""
from __future__ import annotations

from harness import common, gen_filler, history

RUST_COMPRESSIONS = ["", "GZIP", "LZ4", "ZLIB"]
FB_COMPRESSIONS = ["", "BZ2", "GZIP", "LZMA", "LZ4", "ZLIB", "ZSTD"]
NPZ_COMPRESSIONS = ["", "ZIP"]
TFREC_COMPRESSIONS = ["", "GZIP", "ZLIB"]


def gen_dataset(rng, fmt=None, min_shards=1, meta=False, max_sessions=3):
    """A dataset spec with at least `min_shards` shards in split 0 ("train")."""
    fmt = fmt or rng.choice(["fb", "fb", "npz", "tfrec"])
    comp = rng.choice({"fb": FB_COMPRESSIONS, "npz": NPZ_COMPRESSIONS, "tfrec": TFREC_COMPRESSIONS}[fmt])
    eps = rng.choice([1, 2, 3, 4])
    sessions = []
    nshards = 0
    k = 0
    while nshards < min_shards or k < 1:
        kind = rng.choice(["root", "root", "sub", "nested", "multi"]) if k < max_sessions else "root"
        n = rng.choice([1, eps - 1, eps, eps + 1, 2 * eps, 2 * eps + 1, 3 * eps - 1])
        n = max(1, n)

        def ops(count):
            out = []
            if meta:
                out.append(["M", 1, rng.choice([1, 2])])
                out.append(["M", 2, rng.choice([2, 3])])
            for i in range(count):
                split = 0 if rng.random() < 0.8 else rng.choice([1, 2])
                cm = rng.choice([None, 1, 1, 2]) if meta else None
                out.append(["W", split, cm, True])
            return out
        if kind == "multi":
            writers = [ops(rng.choice([0, 1, n])) for _ in range(rng.choice([1, 2, 3]))]
            sessions.append({"kind": "multi", "reopen": False, "writers": writers})
            for w in writers:
                c0 = len([o for o in w if o[0] == "W" and o[1] == 0])
                nshards += -(-c0 // eps)
        else:
            sub = [] if kind == "root" else ([rng.choice([1, 2, 10])] if kind == "sub" else [1, rng.choice([1, 2])])
            o = ops(n)
            sessions.append({"kind": "filler", "sub": sub, "reopen": False, "ops": o})
            c0 = len([x for x in o if x[0] == "W" and x[1] == 0])
            nshards += -(-c0 // eps)
        k += 1
        if k > 8:
            break
    if eps >= 3 and len(sessions) >= 2 and rng.random() < 0.25:
        # the examples_per_shard of the description is lowered (public setter) before the last session: earlier shards hold more than it says
        sessions[-1]["set_eps"] = rng.choice([1, 2])
    return {"format": fmt, "compression": comp, "eps": eps, "sessions": sessions}


def ifaces_for(spec):
    f = ["sync", "concurrent", "tf"]
    if spec["format"] in ("fb", "npz"):
        f.append("async")
    if spec["format"] == "fb" and spec["compression"] in RUST_COMPRESSIONS:
        f.append("rust")
    return f


def run_jobs(jobs, timeout=60, chunk=8, total_timeout=None):
    """Run iteration jobs in the implementation process.  A request that freezes the whole interpreter (native code
    blocking while holding the GIL) is found by a process-level timeout; the progress file written by the runner says
    which request it was: it is reported as {"hang": True, "process_frozen": True} and the rest of the chunk is re-run."""
    import json as _json
    import os as _os
    import tempfile as _tf
    common.ensure_native()
    res = [None] * len(jobs)
    todo = list(range(len(jobs)))
    while todo:
        idx = todo[:chunk]
        js = [jobs[i] for i in idx]
        budget = total_timeout or min(180, 40 + sum(len(j["requests"]) for j in js) * 3 + 8 * len(js) + sum(q.get("pause", 0) for j in js for q in j["requests"]))
        pf = _tf.NamedTemporaryFile(prefix="verif_progress_", suffix=".jsonl", delete=False)
        pf.close()
        try:
            r = common.run_impl("iterate_run.py", {"jobs": js, "timeout": timeout}, timeout=budget, extra_env={"VERIF_PROGRESS": pf.name})["jobs"]
            for i, x in zip(idx, r):
                res[i] = x
            todo = todo[len(idx):]
        except RuntimeError as ex:
            if "rc=124" not in str(ex) and "TIMEOUT" not in str(ex):
                raise
            recs = [_json.loads(l) for l in open(pf.name).read().splitlines() if l.strip()]
            done_jobs = {}
            for rec in recs:
                d = done_jobs.setdefault(rec["job"], {"results": {}, "started": None})
                if "reference" in rec:
                    d.update({k: rec[k] for k in ("reference", "damaged_index", "decoder_rejects")})
                elif "start" in rec:
                    d["started"] = rec["start"]
                elif "req" in rec:
                    d["results"][rec["req"]] = rec["result"]
            advanced = 0
            for local, i in enumerate(idx):
                d = done_jobs.get(local)
                nreq = len(jobs[i]["requests"])
                if d and "reference" in d and len(d["results"]) == nreq:
                    res[i] = {"reference": d["reference"], "damaged_index": d.get("damaged_index"), "decoder_rejects": d.get("decoder_rejects"),
                              "results": [d["results"][k] for k in range(nreq)]}
                    advanced += 1
                    continue
                if d and "reference" in d:
                    outs = []
                    for k in range(nreq):
                        if k in d["results"]:
                            outs.append(d["results"][k])
                        elif k == d["started"]:
                            outs.append({"hang": True, "process_frozen": True})
                        else:
                            outs.append({"skipped": True})
                    res[i] = {"reference": d["reference"], "damaged_index": d.get("damaged_index"), "decoder_rejects": d.get("decoder_rejects"), "results": outs}
                else:
                    res[i] = {"build_error": "the runner froze while building the dataset"}
                advanced += 1
                break
            todo = todo[advanced:]
        finally:
            _os.unlink(pf.name)
    return res
