(** C18: the write path of the three shard writers with faithful partial mutation.
    A write is abstracted to, per declared attribute (in declared order), what is wrong with the
    value passed for it, plus whether an undeclared key is present.  [variable]: a bytes/str
    attribute with empty shape (no shape check). *)
Require Import Coq.Strings.String.
Require Import Sedpack.Model.Base Sedpack.Generated.GenWriters.
Open Scope list_scope.
Open Scope nat_scope.

Inductive av := AGood | AShape | ACast | AMissing.
Record attr := { variable : bool }.
Record wr := { w_id : nat; w_vals : list av; w_extra : bool }.

(** [ShardWriterBase.write]: every fixed-size attribute is looked up and its shape compared before [_write] runs. *)
Fixpoint base_check (attrs : list attr) (vals : list av) : bool :=
  match attrs, vals with
  | a :: ta, v :: tv =>
      (if variable a then true else match v with AMissing | AShape => false | _ => true end) && base_check ta tv
  | _, _ => true
  end.

(** FlatBuffers writer: attribute vectors are appended to the builder one by one; the example is
    referenced from the shard only after all of them were built. *)
Record fbst := { fb_examples : list nat; fb_garbage : nat }.
Fixpoint fb_attrs (vals : list av) (built : nat) : nat + nat :=      (* inl built = all built; inr built = raised after [built] vectors *)
  match vals with
  | [] => inl built
  | v :: t => match v with AGood | AShape => fb_attrs t (S built) | ACast | AMissing => inr built end
  end.
Definition fb_write (attrs : list attr) (s : fbst) (w : wr) : fbst * bool :=
  if base_before_write && negb (base_check attrs (w_vals w)) then (s, false)
  else match fb_attrs (w_vals w) 0 with
       | inl _ => (if fb_append_last then {| fb_examples := fb_examples s ++ [w_id w]; fb_garbage := fb_garbage s |} else s, true)
       | inr g => ({| fb_examples := fb_examples s; fb_garbage := fb_garbage s + g |}, false)
       end.

(** npz writer: one buffer per key of the *passed* dictionary. *)
Definition keys_of (w : wr) : list nat :=     (* declared attribute j -> key j; the extra key -> 1000 *)
  flat_map (fun p => match snd p with AMissing => [] | _ => [fst p] end) (combine (seq 0 (length (w_vals w))) (w_vals w))
  ++ (if w_extra w then [1000] else []).
Definition npzst := list (nat * list nat).
Fixpoint npz_append (buf : npzst) (ks : list nat) (id : nat) : npzst * bool :=
  match ks with
  | [] => (buf, true)
  | k :: t =>
      if existsb (fun e => fst e =? k) buf
      then npz_append (map (fun e => if fst e =? k then (fst e, snd e ++ [id]) else e) buf) t id
      else (buf, false)     (* KeyError: what was appended so far stays appended *)
  end.
Definition names_ok (nattrs : nat) (w : wr) : bool :=
  negb (w_extra w) && forallb (fun v => match v with AMissing => false | _ => true end) (w_vals w) && (length (w_vals w) =? nattrs).
Definition npz_write (attrs : list attr) (s : npzst) (w : wr) : npzst * bool :=
  if base_before_write && negb (base_check attrs (w_vals w)) then (s, false)
  else if npz_checks_names && negb (names_ok (length attrs) w) then (s, false)
  else match s with
       | [] => (map (fun k => (k, [w_id w])) (keys_of w), true)
       | _ => npz_append s (keys_of w) (w_id w)
       end.
(** the shard can be read back iff all buffers hold the same number of examples *)
Definition npz_readable (s : npzst) : bool :=
  match s with [] => true | (_, l) :: t => forallb (fun e => length (snd e) =? length l) t end.
Definition npz_ids (s : npzst) : list nat := match s with [] => [] | (_, l) :: _ => l end.

Definition run_fb (attrs : list attr) (ws : list wr) : fbst := fold_left (fun s w => fst (fb_write attrs s w)) ws {| fb_examples := []; fb_garbage := 0 |}.
Definition run_npz (attrs : list attr) (ws : list wr) : npzst := fold_left (fun s w => fst (npz_write attrs s w)) ws [].
Definition accepted_fb (attrs : list attr) (ws : list wr) : list nat :=
  snd (fold_left (fun (acc : fbst * list nat) w => let (s', ok) := fb_write attrs (fst acc) w in (s', if ok then snd acc ++ [w_id w] else snd acc)) ws ({| fb_examples := []; fb_garbage := 0 |}, [])).
Definition accepted_npz (attrs : list attr) (ws : list wr) : list nat :=
  snd (fold_left (fun (acc : npzst * list nat) w => let (s', ok) := npz_write attrs (fst acc) w in (s', if ok then snd acc ++ [w_id w] else snd acc)) ws ([], [])).

(** TFRecord writer: [to_tfrecord] validates names and shapes and builds the whole record; only then is it written. *)
Definition tf_ok (attrs : list attr) (w : wr) : bool :=
  names_ok (length attrs) w && base_check attrs (w_vals w) && forallb (fun v => match v with ACast => false | _ => true end) (w_vals w).
Definition tf_write (attrs : list attr) (s : list nat) (w : wr) : list nat * bool :=
  if tf_ok attrs w then (s ++ [w_id w], true) else (s, false).
Definition run_tf (attrs : list attr) (ws : list wr) : list nat := fold_left (fun s w => fst (tf_write attrs s w)) ws [].
Definition accepted_tf (attrs : list attr) (ws : list wr) : list nat :=
  snd (fold_left (fun (acc : list nat * list nat) w => let (s', ok) := tf_write attrs (fst acc) w in (s', if ok then snd acc ++ [w_id w] else snd acc)) ws ([], [])).

(** what the writer stores for a declared dtype is what the reader parses for it *)
Definition fkind_eqb (a b : fkind) : bool :=
  match a, b with KInt64, KInt64 | KFloat32, KFloat32 | KFloat64, KFloat64 | KTensor, KTensor | KBytes, KBytes => true | _, _ => false end.
Definition tf_lookup (t : list (string * fkind)) (d : string) : option fkind :=
  match find (fun e => String.eqb (fst e) d) t with Some e => Some (snd e) | None => None end.
Definition tf_entry_ok (e : string * fkind) : bool :=
  match tf_lookup tf_reader_table (fst e) with Some k => fkind_eqb k (snd e) && negb (fkind_eqb k KFloat64) | None => false end.
