(** C02/C08 over whole histories: after every history that completes, unshuffled iteration of a split (the depth-first shard list,
    each shard's stored examples) is a permutation of the contents of all shard files stored below that split — every stored shard
    exactly once, nothing else. *)
Require Import Sedpack.Model.Base Sedpack.Generated.GenMerge Sedpack.Generated.GenFiller Sedpack.Model.Filler Sedpack.Model.Meta.
Require Import Sedpack.Proofs.MergeBasics Sedpack.Proofs.MergeProofs Sedpack.Proofs.FillerProofs Sedpack.Proofs.HistoryProofs Sedpack.Proofs.ReachProofs Sedpack.Proofs.NoDupProofs Sedpack.Proofs.OrderProofs Sedpack.Proofs.CheckProofs.
From Coq Require Import Permutation.
Local Open Scope Z_scope.

(** the keys of the shard store are distinct (uuid names) *)
Definition KeysNoDup (fs : fsT) : Prop := NoDup (map fst (shards fs)).

Lemma lookup_shard_of_in d n v l : NoDup (map fst l) -> List.In ((d, n), v) l -> lookup_shard d n l = Some v.
Proof.
  induction l as [|[[d' n'] v'] t IH]; intros N H; [destruct H|]. cbn [map fst] in N. inversion N as [|x y Hx Hy]; subst. cbn [lookup_shard].
  destruct H as [E | H].
  - injection E as -> -> ->. rewrite dpath_eqb_refl, Nat.eqb_refl. reflexivity.
  - destruct (dpath_eqb d' d && Nat.eqb n' n) eqn:E; [|apply IH; assumption].
    exfalso. apply andb_true_iff in E as [E1 E2]. apply dpath_eqb_eq in E1. apply Nat.eqb_eq in E2. subst. apply Hx. apply in_map_iff. exists ((d, n), v). auto.
Qed.

Lemma add_shard_keys fs d sh h : FreshOK fs -> KeysNoDup fs -> KeysNoDup (add_shard fs d sh h).
Proof.
  intros Hfr N. unfold KeysNoDup. rewrite add_shard_shards. cbn [map fst]. constructor; [|exact N].
  intros Hin. apply in_map_iff in Hin as ([[d' n'] v] & E & Hin). cbn [fst] in E. injection E as -> ->.
  destruct (In_lookup_shard d (fresh fs) v (shards fs) Hin) as [v' Hv]. apply Hfr in Hv. lia.
Qed.

Section K.
Variable eps : nat.
Hypothesis Heps : (1 <= eps)%nat.

Lemma filler_keys fs sub ops : WFunder fs [] -> FreshOK fs -> KeysNoDup fs -> KeysNoDup (fst (filler_session fs sub eps ops)).
Proof.
  intros Hwf Hfr N. unfold filler_session. cbv zeta.
  set (st := run_ops eps ops). set (closes := f_closed st ++ exit_closes st).
  assert (Hsz : Forall (fun c => sh_n (snd c) = length (sh_ex (snd c))) closes).
  { pose proof (sizes_ok_lemma eps Heps ops) as H. unfold sizes_ok, session_closed in H. fold st in H. fold closes in H.
    rewrite forallb_forall in H. apply Forall_forall. intros c Hc. specialize (H c Hc). unfold size_ok in H.
    apply andb_true_iff in H as [_ H]. apply Nat.eqb_eq in H. exact H. }
  assert (A : forall cl fsa, Forall (fun c => sh_n (snd c) = length (sh_ex (snd c))) cl -> WFunder fsa [] -> FreshOK fsa -> KeysNoDup fsa ->
     KeysNoDup (fold_left (fun fs0 c => add_shard fs0 (split_code (fst c) :: sub) (snd c) (f_heap st)) cl fsa)).
  { induction cl as [|c t IH]; intros fsa Hs W F K; cbn [fold_left]; [exact K|]. apply Forall_cons_iff in Hs as [Hc Ht].
    apply IH; [exact Ht | apply add_shard_WF; assumption | apply add_shard_fresh; assumption | apply add_shard_keys; assumption]. }
  specialize (A closes fs Hsz Hwf Hfr N). set (fs1 := fold_left _ closes fs) in *.
  assert (B : forall tl fsa acc, shards (fst (fold_left (fun (a : fsT * list list_info) (c : nat) => let (fs2, li) := write_list (fst a) (load_or_create (fst a) (c :: sub)) in (fs2, snd a ++ [li])) tl (fsa, acc))) = shards fsa).
  { induction tl as [|c t IH]; intros fsa acc; cbn [fold_left fst snd]; [reflexivity|].
    pose proof (rewrite_shards fsa (c :: sub)) as E. destruct (write_list fsa (load_or_create fsa (c :: sub))) as [fs2 li]. cbn [fst] in *. rewrite IH. exact E. }
  specialize (B (touched closes []) fs1 []). destruct (fold_left _ (touched closes []) (fs1, [])) as [fs3 ups]. cbn [fst] in *.
  unfold KeysNoDup. cbn [shards]. rewrite B. exact A.
Qed.

Lemma session_keys st s st' : Inv st -> KeysNoDup (fst st) -> run_session eps st s = Ok st' -> KeysNoDup (fst st').
Proof.
  intros (Hwf & Hfr & _) N Hr. destruct st as [fs info]. cbn [fst snd] in *. unfold run_session in Hr.
  assert (Fin : forall fs1 ups, WFunder fs1 [] -> (forall u, List.In u ups -> (1 <= length (li_dir u))%nat) -> KeysNoDup fs1 ->
     match ups with [] => Ok (fs1, info) | _ => write_config fs1 info ups end = Ok st' -> KeysNoDup (fst st')).
  { intros fs1 ups W1 L K1 Hq. destruct ups as [|u0 ups']; [injection Hq as <-; exact K1|].
    destruct st' as [fs' info']. unfold write_config, group_split in Hq. fold WCstep in Hq. cbn [fst].
    destruct (wc_fold_same_files (group_by 0 (u0 :: ups')) fs1 info fs' info') as [_ E]; [apply group_by_ok; apply Forall_forall; exact L | exact W1 | exact Hq|].
    unfold KeysNoDup. rewrite E. exact K1. }
  destruct s as [sub ops | writers].
  - pose proof (filler_keys fs sub ops Hwf Hfr N) as K1.
    destruct (filler_phase eps Heps fs sub ops Hwf Hfr) as (W1 & _ & _ & _ & L1 & _).
    destruct (filler_session fs sub eps ops) as [fs1 ups]. cbn [fst snd] in *. exact (Fin fs1 ups W1 L1 K1 Hr).
  - set (fsm := {| lists := lists fs; shards := shards fs; ver := ver fs; fresh := (fresh fs + length writers)%nat; base := base fs |}) in *.
    assert (Wm : WFunder fsm []) by (intros d s0 h0 Hp E; apply (WFdoc_shards fs fsm); [reflexivity | exact (Hwf d s0 h0 Hp E)]).
    assert (Fm : FreshOK fsm) by (intros d n v E; cbn [fresh fsm]; pose proof (Hfr d n v E); lia).
    assert (M : forall ws fsa us k, WFunder fsa [] -> FreshOK fsa -> KeysNoDup fsa ->
      KeysNoDup (fst (fst (fold_left (fun (acc : fsT * list list_info * nat) (ops : list wop) =>
            let '(fsx, usx, kx) := acc in let (fsy, u) := filler_session fsx [kx] eps ops in (fsy, usx ++ u, S kx)) ws (fsa, us, k))))).
    { induction ws as [|ops t IH]; intros fsa us k W F K; cbn [fold_left fst]; [exact K|].
      pose proof (filler_keys fsa [k] ops W F K) as K1. destruct (filler_phase eps Heps fsa [k] ops W F) as (W1 & F1 & _).
      destruct (filler_session fsa [k] eps ops) as [fsb u1]. cbn [fst] in *. apply IH; assumption. }
    specialize (M writers fsm [] (fresh fs) Wm Fm N).
    destruct (multi_phase eps Heps writers fsm (fresh fs) Wm Fm) as (W1 & _ & _ & _ & L1 & _). cbv zeta in *.
    destruct (fold_left _ writers (fsm, [], fresh fs)) as [[fs1 ups] kk]. cbn [fst snd] in *. exact (Fin fs1 ups W1 L1 M Hr).
Qed.
End K.

Definition under (s : nat) (e : (dpath * nat) * (list nat * digest)) : bool :=
  match fst (fst e) with x :: _ => Nat.eqb x s | [] => false end.
Definition content_of (fs : fsT) (k : dpath * nat) : list nat :=
  match lookup_shard (fst k) (snd k) (shards fs) with Some (ex, _) => ex | None => [] end.

Lemma NoDup_map_filter {A B} (f : A -> B) (p : A -> bool) (l : list A) : NoDup (map f l) -> NoDup (map f (filter p l)).
Proof.
  induction l as [|a l IH]; intros N; [constructor|]. cbn [map] in N. inversion N as [|x y Hx Hy]; subst. cbn [filter].
  destruct (p a); [cbn [map]; constructor; [|apply IH; exact Hy] | apply IH; exact Hy].
  intros Hin. apply Hx. apply in_map_iff in Hin as (b & E & Hb). apply filter_In in Hb as [Hb _]. apply in_map_iff. exists b. auto.
Qed.

Lemma lookup_shard_In d n v l : lookup_shard d n l = Some v -> List.In ((d, n), v) l.
Proof.
  induction l as [|[[d' n'] v'] t IH]; cbn [lookup_shard]; [discriminate|].
  destruct (dpath_eqb d' d && Nat.eqb n' n) eqn:E; [|intros H; right; apply IH, H].
  apply andb_true_iff in E as [E1 E2]. apply dpath_eqb_eq in E1. apply Nat.eqb_eq in E2. subst. intros [= ->]. left. reflexivity.
Qed.

Section It.
Variable eps : nat.
Hypothesis Heps : (1 <= eps)%nat.

Lemma history_keys h st : run_history eps h = Ok st -> KeysNoDup (fst st).
Proof.
  unfold run_history.
  assert (G : forall h st0 st1, Inv st0 -> KeysNoDup (fst st0) -> fold_left (fun acc s => match acc with Err e => Err e | Ok stx => run_session eps stx s end) h (Ok st0) = Ok st1 -> KeysNoDup (fst st1)).
  { induction h0 as [|s t IH]; intros st0 st1 HI K Hf; cbn [fold_left] in Hf.
    - injection Hf as <-. exact K.
    - destruct (run_session eps st0 s) as [stx|e] eqn:Er.
      + apply (IH stx st1); [apply (run_session_inv eps Heps st0 s stx HI Er) | apply (session_keys eps Heps st0 s stx HI K Er) | exact Hf].
      + exfalso. clear -Hf. induction t as [|x t IHt]; cbn [fold_left] in Hf; [discriminate | auto]. }
  intros Hr. apply (G h (fs0, []) st HistoryProofs.inv_init); [constructor | exact Hr].
Qed.

(** unshuffled iteration of a split = the contents of the shard files stored below it, each exactly once *)
Theorem history_iterate_is_stored h fs info : run_history eps h = Ok (fs, info) ->
  forall s li, dget info s = Some li ->
  Permutation (iterate fs info s) (flat_map (fun e => fst (snd e)) (filter (under s) (shards fs))).
Proof.
  intros Hr s li Hg.
  pose proof (history_keys h (fs, info) Hr) as HK. cbn [fst] in HK.
  destruct (history_inv4 eps Heps h (fs, info) Hr) as (((Hwf & Hfr & Hex) & _) & Hdk & _ & _). cbn [fst snd] in *.
  destruct (Hex s li Hg (fun f => f)) as [Hdir _].
  unfold iterate. rewrite Hg, Hdir.
  set (L := dfs FUEL fs [s]). set (S := filter (under s) (shards fs)).
  assert (Wf1 : WFunder fs [s]) by (eapply WFunder_mono; [|exact Hwf]; reflexivity).
  (* the same keys on both sides *)
  assert (Pk : Permutation (map pair_of L) (map fst S)).
  { apply NoDup_Permutation.
    - apply (dfs_nodup FUEL fs [s] Wf1 Hdk).
    - apply NoDup_map_filter. exact HK.
    - intros [d n]. split.
      + intros Hin. apply in_map_iff in Hin as (sh & E & Hsh). unfold pair_of in E. injection E as <- <-.
        pose proof (dfs_dirs FUEL fs [s] sh Wf1 Hsh) as Hp. pose proof (CheckProofs.dfs_hashes FUEL fs [s] sh Wf1 Hsh) as Hh.
        destruct (lookup_shard (sh_dir sh) (sh_name sh) (shards fs)) as [v|] eqn:El; [|discriminate].
        apply lookup_shard_In in El. apply in_map_iff. exists ((sh_dir sh, sh_name sh), v). split; [reflexivity|].
        apply filter_In. split; [exact El|]. unfold under. cbn [fst]. apply prefix_single in Hp as [t ->]. apply Nat.eqb_refl.
      + intros Hin. apply in_map_iff in Hin as ([[d' n'] v] & E & He). cbn [fst] in E. injection E as -> ->.
        apply filter_In in He as [He Hu]. unfold under in Hu. cbn [fst] in Hu. destruct d as [|x t]; [discriminate|]. apply Nat.eqb_eq in Hu. subst x.
        pose proof (lookup_shard_of_in (s :: t) n v (shards fs) HK He) as El.
        destruct (history_all_shards_listed eps Heps h fs info Hr s t n v El) as (li' & sh & _ & _ & Hin & Hd & Hn).
        apply in_map_iff. exists sh. split; [unfold pair_of; rewrite Hd, Hn; reflexivity | exact Hin]. }
  (* the same contents *)
  assert (E1 : flat_map (examples_of fs) L = flat_map (content_of fs) (map pair_of L)).
  { rewrite flat_map_concat_map, (flat_map_concat_map (content_of fs)), map_map. reflexivity. }
  assert (E2 : flat_map (fun e => fst (snd e)) S = flat_map (content_of fs) (map fst S)).
  { rewrite flat_map_concat_map, (flat_map_concat_map (content_of fs)), map_map. f_equal. apply map_ext_in. intros [[d n] [ex hs]] He.
    apply filter_In in He as [He _]. unfold content_of. cbn [fst snd]. rewrite (lookup_shard_of_in d n (ex, hs) (shards fs) HK He). reflexivity. }
  rewrite E1, E2. apply Permutation_flat_map. exact Pk.
Qed.
End It.
