Require Import Sedpack.Model.Base Sedpack.Model.Iter Sedpack.Model.ReadFail Sedpack.Proofs.IterProofs.

Section R.
Variables P E : Type.
Variable read : P -> option (list E).

Lemma chain_read_raises paths p : List.In p paths -> read p = None -> snd (chain_read P E read paths) = true.
Proof.
  induction paths as [|q t IH]; intros Hin Hf; [destruct Hin|]. simpl.
  destruct (read q) as [ex|] eqn:Eq; [|reflexivity].
  destruct Hin as [->|Hin]; [congruence|]. specialize (IH Hin Hf).
  destruct (chain_read P E read t). simpl in *. exact IH.
Qed.

Lemma chain_read_ok paths : (forall p, List.In p paths -> read p <> None) ->
  snd (chain_read P E read paths) = false /\
  fst (chain_read P E read paths) = concat (map (fun p => match read p with Some ex => ex | None => [] end) paths).
Proof.
  induction paths as [|q t IH]; intros H; simpl; [split; reflexivity|].
  destruct (read q) as [ex|] eqn:Eq; [|exfalso; apply (H q); [left; reflexivity | exact Eq]].
  destruct (IH (fun p Hp => H p (or_intror Hp))) as (H1 & H2). destruct (chain_read P E read t). simpl in *.
  split; [exact H1 | rewrite H2; reflexivity].
Qed.

Lemma chain_read_app a b :
  chain_read P E read (a ++ b) =
  if snd (chain_read P E read a) then chain_read P E read a
  else (fst (chain_read P E read a) ++ fst (chain_read P E read b), snd (chain_read P E read b)).
Proof.
  induction a as [|q t IH]; simpl.
  - destruct (chain_read P E read b); reflexivity.
  - destruct (read q) as [ex|]; [|reflexivity]. rewrite IH.
    destruct (chain_read P E read t) as [r1 [|]]; simpl; [reflexivity|].
    destruct (chain_read P E read b). simpl. rewrite app_assoc. reflexivity.
Qed.

(** the batch loop behaves like the plain chain on the concatenation of its batches *)
Lemma batch_fold_eq bts : forall acc,
  fold_left (fun (acc : list E * bool) (bt : list P) =>
               if snd acc then acc else let (r, raised) := chain_read P E read bt in (fst acc ++ r, raised)) bts acc
  = if snd acc then acc else (fst acc ++ fst (chain_read P E read (concat bts)), snd (chain_read P E read (concat bts))).
Proof.
  induction bts as [|bt t IH]; intros [a r]; simpl.
  - destruct r; [reflexivity|]. rewrite app_nil_r. reflexivity.
  - rewrite IH. destruct r; simpl; [reflexivity|]. rewrite chain_read_app.
    destruct (chain_read P E read bt) as [r1 [|]]; simpl; [reflexivity|]. rewrite app_assoc. reflexivity.
Qed.

Lemma batch_read_raises T fuel paths p : 1 <= T -> length paths < fuel -> List.In p paths -> read p = None ->
  snd (batch_read P E read fuel T paths) = true.
Proof.
  intros HT Hf Hin Hr. unfold batch_read. rewrite batch_fold_eq. simpl.
  rewrite (batches_concat_lemma T HT fuel paths Hf). apply (chain_read_raises paths p Hin Hr).
Qed.
End R.
