(** M9: [shard_paths_dataset]: the selection stages, interpreted in the order found in the source. *)
Require Import Sedpack.Model.Base Sedpack.Generated.GenSelect.

(** A shard as selection sees it: identity and shard-level custom metadata. *)
Record sinfo := { s_id : nat; s_meta : meta }.

Fixpoint count_meta (m : meta) (l : list sinfo) : nat :=
  match l with [] => 0 | x :: t => (if s_meta x =? m then 1 else 0) + count_meta m t end.

(** First [n] shards of every metadata value ([seen] = the shards already visited, newest first). *)
Fixpoint limit_loop (n : nat) (l : list sinfo) (seen : list sinfo) : list sinfo :=
  match l with
  | [] => []
  | x :: t => let c := S (count_meta (s_meta x) seen) in
              (if limit_keeps c n then [x] else []) ++ limit_loop n t (x :: seen)
  end.

(** Options: [filt = None] no predicate; [k = 0] / [n = 0]: option absent (Python: None or 0 are falsy). *)
Definition apply_stage (filt : option (sinfo -> bool)) (k n : nat) (st : stage) (l : list sinfo) : option (list sinfo) :=
  match st with
  | SFilter => Some (match filt with Some p => filter p l | None => l end)
  | SNonEmpty => match l with [] => None | _ => Some l end
  | STruncate => Some (if k =? 0 then l else firstn k l)
  | SLimit => Some (if n =? 0 then l else limit_loop n l [])
  end.

Fixpoint run_stages (filt : option (sinfo -> bool)) (k n : nat) (sts : list stage) (l : list sinfo) : option (list sinfo) :=
  match sts with
  | [] => Some l
  | st :: rest => match apply_stage filt k n st l with Some l' => run_stages filt k n rest l' | None => None end
  end.

Definition select (filt : option (sinfo -> bool)) (k n : nat) (l : list sinfo) : option (list sinfo) :=
  run_stages filt k n select_stages l.

(** The specification (property text): shards accepted by the predicate; an error if none is left;
    then the first [k]; then at most [n] per metadata value, first come first. *)
Definition spec (filt : option (sinfo -> bool)) (k n : nat) (l : list sinfo) : option (list sinfo) :=
  let l1 := match filt with Some p => filter p l | None => l end in
  match l1 with
  | [] => None
  | _ => let l2 := if k =? 0 then l1 else firstn k l1 in
         Some (if n =? 0 then l2 else limit_loop n l2 [])
  end.

(** Order-preserving sub-list. *)
Fixpoint sublist (a b : list sinfo) : Prop :=
  match a, b with
  | [], _ => True
  | _ :: _, [] => False
  | x :: a', y :: b' => (x = y /\ sublist a' b') \/ sublist a b'
  end.

Definition all_forwarded : bool := forallb (fun r => snd (snd r)) forwarding.
